#!/bin/bash
# usage: tools/seeddetect_wt.sh <dir with patch.diff> <property ids...>
# like seeddetect.sh but never touches /repo: applies the change in a scratch worktree (VERIF_REPO)
# and runs the checks from a scratch copy of /verif (VERIF_DIR) so evidence/replays of /verif stay
# untouched; several of these can run side by side.
export GOFLAGS=-mod=mod GOPROXY=off GOSUMDB=off GOTOOLCHAIN=local
d=$(cd "$1" && pwd); shift
wt=$(mktemp -d /tmp/seedwt.XXXXXX); rmdir "$wt"
vd=$(mktemp -d /tmp/seedvd.XXXXXX)
git -C /repo worktree add --detach "$wt" HEAD >/dev/null 2>&1 || { echo "$d cannot create worktree"; exit 3; }
trap 'git -C /repo worktree remove --force "$wt" >/dev/null 2>&1; rm -rf "$wt" "$vd"' EXIT
git -C "$wt" apply "$d/patch.diff" || { echo "$d cannot apply"; exit 3; }
rsync -a --exclude .git --exclude seeded --exclude replays --exclude notes ${VERIF_SRC:-/verif}/ "$vd/"
mkdir -p "$vd/replays"
for p in "$@"; do
  s=$(date +%s)
  out=$(cd "$vd" && VERIF_REPO="$wt" VERIF_DIR="$vd" VERIF_NO_VALIDATE=1 ./bin/symgo check --property $p --tier ${TIER:-quick} 2>&1); rc=$?
  e=$(date +%s)
  echo "$d CHECK $p rc=$rc $((e-s))s"
  echo "$out" | grep -E "^(VIOLATION|INCONCLUSIVE|   harness=)" | cut -c1-220 | head -6
done
