package main

// Symbolic counterparts of the scalar operations: dispatch to the concrete
// interp implementation when both operands are concrete, otherwise build a
// bit-vector term with Go's exact semantics (wrap-around, signedness by type,
// shift-count rule, conversions as extract/extend).

import (
	"fmt"
	"go/token"
	"go/types"

	"golang.org/x/tools/go/ssa"
)

func kindWidth(k types.BasicKind) uint8 {
	switch k {
	case types.Bool, types.UntypedBool:
		return 0
	case types.Int8, types.Uint8:
		return 8
	case types.Int16, types.Uint16:
		return 16
	case types.Int32, types.Uint32:
		return 32
	case types.Int, types.Uint, types.Int64, types.Uint64, types.Uintptr:
		return 64
	}
	panic(engineAbort{abInconclusive, fmt.Sprintf("symbolic value of unsupported kind %v", k)})
}

func kindSigned(k types.BasicKind) bool {
	switch k {
	case types.Int, types.Int8, types.Int16, types.Int32, types.Int64:
		return true
	}
	return false
}

func basicKindOf(t types.Type) (types.BasicKind, bool) {
	if t == nil {
		return 0, false
	}
	b, ok := t.Underlying().(*types.Basic)
	if !ok {
		return 0, false
	}
	k := b.Kind()
	switch k {
	case types.UntypedInt:
		k = types.Int
	case types.UntypedRune:
		k = types.Int32
	case types.UntypedBool:
		k = types.Bool
	}
	return k, true
}

// concKind returns the basic kind of a concrete scalar value.
func concKind(v value) (types.BasicKind, uint64, bool) {
	switch x := v.(type) {
	case bool:
		return types.Bool, b2u(x), true
	case int:
		return types.Int, uint64(x), true
	case int8:
		return types.Int8, uint64(x), true
	case int16:
		return types.Int16, uint64(x), true
	case int32:
		return types.Int32, uint64(x), true
	case int64:
		return types.Int64, uint64(x), true
	case uint:
		return types.Uint, uint64(x), true
	case uint8:
		return types.Uint8, uint64(x), true
	case uint16:
		return types.Uint16, uint64(x), true
	case uint32:
		return types.Uint32, uint64(x), true
	case uint64:
		return types.Uint64, x, true
	case uintptr:
		return types.Uintptr, uint64(x), true
	}
	return 0, 0, false
}

// fromBits boxes raw bits as a concrete value of kind k.
func fromBits(k types.BasicKind, v uint64) value {
	switch k {
	case types.Bool:
		return v != 0
	case types.Int:
		return int(v)
	case types.Int8:
		return int8(v)
	case types.Int16:
		return int16(v)
	case types.Int32:
		return int32(v)
	case types.Int64:
		return int64(v)
	case types.Uint:
		return uint(v)
	case types.Uint8:
		return uint8(v)
	case types.Uint16:
		return uint16(v)
	case types.Uint32:
		return uint32(v)
	case types.Uint64:
		return v
	case types.Uintptr:
		return uintptr(v)
	}
	panic(fmt.Sprintf("fromBits: kind %v", k))
}

// term returns the term for a scalar value (symbolic or concrete).
func (i *interpreter) term(v value) (*Term, types.BasicKind) {
	if s, ok := v.(sym); ok {
		return s.t, s.k
	}
	k, bits, ok := concKind(v)
	if !ok {
		panic(engineAbort{abInconclusive, fmt.Sprintf("cannot make a term from %T", v)})
	}
	if k == types.Bool {
		return i.tt.Bool(bits != 0), k
	}
	return i.tt.Const(kindWidth(k), bits), k
}

// box wraps a term as a value, collapsing constants to concrete values.
func (i *interpreter) box(t *Term, k types.BasicKind) value {
	switch t.op {
	case opConst:
		return fromBits(k, uint64(signAdjust(t.k, k)))
	case opTrue:
		return true
	case opFalse:
		return false
	}
	return sym{t, k}
}

func signAdjust(v uint64, k types.BasicKind) uint64 {
	if kindSigned(k) {
		return uint64(sext(v, kindWidth(k)))
	}
	return v
}

func isSym(v value) bool { _, ok := v.(sym); return ok }

func (i *interpreter) binop(op token.Token, t types.Type, x, y value) value {
	if !isSym(x) && !isSym(y) {
		return concBinop(op, t, x, y)
	}
	tt := i.tt
	tx, kx := i.term(x)
	// shifts: the count has its own type
	if op == token.SHL || op == token.SHR {
		ty, ky := i.term(y)
		w := kindWidth(kx)
		if kindSigned(ky) {
			neg := tt.Bin(opSlt, ty, tt.Const(ty.w, 0))
			if i.branchTerm(neg) {
				panic("runtime error: negative shift amount")
			}
		}
		// bring the count to x's width, saturating at w
		var cnt *Term
		switch {
		case ty.w == w:
			cnt = ty
		case ty.w < w:
			cnt = tt.ZExt(ty, w)
		default:
			big := tt.Not(tt.Bin(opUlt, ty, tt.Const(ty.w, uint64(w))))
			cnt = tt.Ite(big, tt.Const(w, uint64(w)), tt.Extract(ty, w-1, 0))
		}
		switch {
		case op == token.SHL:
			return i.box(tt.Bin(opShl, tx, cnt), kx)
		case kindSigned(kx):
			return i.box(tt.Bin(opAShr, tx, cnt), kx)
		default:
			return i.box(tt.Bin(opLShr, tx, cnt), kx)
		}
	}
	ty, ky := i.term(y)
	if kx != ky {
		// untyped-constant leftovers: trust the symbolic side / static type
		if sk, ok := basicKindOf(t); ok && kindWidth(sk) == tx.w && kindWidth(sk) == ty.w {
			kx, ky = sk, sk
		} else if tx.w != ty.w {
			panic(engineAbort{abInconclusive, fmt.Sprintf("binop %s: kind mismatch %v vs %v", op, kx, ky)})
		}
	}
	signed := kindSigned(kx)
	if kx == types.Bool {
		switch op {
		case token.EQL:
			return i.box(tt.Eq(tx, ty), types.Bool)
		case token.NEQ:
			return i.box(tt.Not(tt.Eq(tx, ty)), types.Bool)
		case token.LAND, token.AND:
			return i.box(tt.And(tx, ty), types.Bool)
		case token.LOR, token.OR:
			return i.box(tt.Or(tx, ty), types.Bool)
		}
		panic(fmt.Sprintf("invalid bool binop %s", op))
	}
	switch op {
	case token.ADD:
		return i.box(tt.Bin(opAdd, tx, ty), kx)
	case token.SUB:
		return i.box(tt.Bin(opSub, tx, ty), kx)
	case token.MUL:
		return i.box(tt.Bin(opMul, tx, ty), kx)
	case token.QUO, token.REM:
		if ty.op != opConst {
			if i.branchTerm(tt.Eq(ty, tt.Const(ty.w, 0))) {
				panic("runtime error: integer divide by zero")
			}
		} else if ty.k == 0 {
			panic("runtime error: integer divide by zero")
		}
		var o opKind
		switch {
		case op == token.QUO && signed:
			o = opSDiv
		case op == token.QUO:
			o = opUDiv
		case signed:
			o = opSRem
		default:
			o = opURem
		}
		return i.box(tt.Bin(o, tx, ty), kx)
	case token.AND:
		return i.box(tt.Bin(opBvAnd, tx, ty), kx)
	case token.OR:
		return i.box(tt.Bin(opBvOr, tx, ty), kx)
	case token.XOR:
		return i.box(tt.Bin(opBvXor, tx, ty), kx)
	case token.AND_NOT:
		return i.box(tt.Bin(opBvAnd, tx, tt.Un(opBvNot, ty)), kx)
	case token.EQL:
		return i.box(tt.Eq(tx, ty), types.Bool)
	case token.NEQ:
		return i.box(tt.Not(tt.Eq(tx, ty)), types.Bool)
	case token.LSS:
		return i.box(tt.Bin(pick(signed, opSlt, opUlt), tx, ty), types.Bool)
	case token.LEQ:
		return i.box(tt.Bin(pick(signed, opSle, opUle), tx, ty), types.Bool)
	case token.GTR:
		return i.box(tt.Bin(pick(signed, opSlt, opUlt), ty, tx), types.Bool)
	case token.GEQ:
		return i.box(tt.Bin(pick(signed, opSle, opUle), ty, tx), types.Bool)
	}
	panic(fmt.Sprintf("invalid symbolic binary op: %s", op))
}

func pick(c bool, a, b opKind) opKind {
	if c {
		return a
	}
	return b
}

func (i *interpreter) unop(fr *frame, instr *ssa.UnOp, x value) value {
	s, ok := x.(sym)
	if !ok {
		return concUnop(i, fr, instr, x)
	}
	switch instr.Op {
	case token.SUB:
		return i.box(i.tt.Un(opBvNeg, s.t), s.k)
	case token.NOT:
		return i.box(i.tt.Not(s.t), types.Bool)
	case token.XOR:
		return i.box(i.tt.Un(opBvNot, s.t), s.k)
	}
	panic(fmt.Sprintf("invalid symbolic unary op %s", instr.Op))
}

func (i *interpreter) conv(tDst, tSrc types.Type, x value) value {
	switch xs := x.(type) {
	case sym:
		kd, ok := basicKindOf(tDst)
		if !ok {
			panic(engineAbort{abInconclusive, fmt.Sprintf("conversion of symbolic value to %s", tDst)})
		}
		if kd == types.String {
			// string(rune): concretise
			v := i.concretize(xs)
			return concConv(tDst, tSrc, v)
		}
		if kd == types.Float32 || kd == types.Float64 {
			panic(engineAbort{abInconclusive, "conversion of symbolic integer to float"})
		}
		wd, ws := kindWidth(kd), xs.t.w
		var r *Term
		switch {
		case wd == ws:
			r = xs.t
		case wd < ws:
			r = i.tt.Extract(xs.t, wd-1, 0)
		case kindSigned(xs.k):
			r = i.tt.SExt(xs.t, wd)
		default:
			r = i.tt.ZExt(xs.t, wd)
		}
		return i.box(r, kd)
	case []value:
		// []byte -> string with symbolic bytes: concretise byte by byte
		if _, ok := tDst.Underlying().(*types.Basic); ok {
			anySym := false
			for _, e := range xs {
				if isSym(e) {
					anySym = true
					break
				}
			}
			if anySym {
				i.path.lossyStrings++
				c := make([]value, len(xs))
				for k, e := range xs {
					if s, ok := e.(sym); ok {
						c[k] = i.concretize(s)
					} else {
						c[k] = e
					}
				}
				return concConv(tDst, tSrc, c)
			}
		}
	}
	return concConv(tDst, tSrc, x)
}

// cond turns a boolean value into a control-flow decision.
func (i *interpreter) cond(v value) bool {
	switch v := v.(type) {
	case bool:
		return v
	case sym:
		return i.branchTerm(v.t)
	}
	panic(fmt.Sprintf("cond: not a bool: %T", v))
}

// asInt demands a concrete integer (index, length, capacity ...).
func (i *interpreter) asInt(v value) int {
	if s, ok := v.(sym); ok {
		return int(asInt64(i.concretize(s)))
	}
	return int(asInt64(v))
}

func (i *interpreter) concreteKey(v value) value {
	if s, ok := v.(sym); ok {
		return i.concretize(s)
	}
	return v
}

// concretize forks the path over every feasible value of s.
func (i *interpreter) concretize(s sym) value {
	if s.k == types.Bool {
		return i.branchTerm(s.t)
	}
	bits := i.concretizeTerm(s.t)
	return fromBits(s.k, signAdjust(bits, s.k))
}

// symEquals is used for == on scalars where one side is symbolic.
func (i *interpreter) symEquals(x, y value) value {
	tx, _ := i.term(x)
	ty, _ := i.term(y)
	return i.box(i.tt.Eq(tx, ty), types.Bool)
}
