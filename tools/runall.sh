#!/bin/sh
# runs every property's check at the given tier (default quick); prints one line per property
tier=${1:-quick}
export GOFLAGS=-mod=mod GOPROXY=off GOSUMDB=off GOTOOLCHAIN=local
cd /verif
for p in $(python3 -c "import json; print(' '.join(c['property_id'] for c in json.load(open('MANIFEST.json'))['checks']))"); do
  s=$(date +%s)
  out=$(./bin/symgo check --property $p --tier $tier 2>&1); rc=$?
  e=$(date +%s)
  echo "$p rc=$rc $((e-s))s"
  echo "$out" | grep -E "^(VIOLATION|INCONCLUSIVE|KNOWN-FINDING)" | cut -c1-260
done
