"""Per-property run tables (bounds) for gen.py."""

TECH = "symbolic execution of go/ssa + SMT (z3, QF_BV), bounded"
NOTE = ("trusted: go/ssa semantics, engine instruction semantics (x/tools interp model), z3 4.8.12, "
        "environment stubs listed in the evidence, pre-state generator reachability argument (DESIGN 3.3); "
        "bounds per run in bounds.json")

NOT_APPLICABLE = []

ALL = ["C%02d" % i for i in range(1, 20)]


def register(prop, run, KERNELS, C01_COVERS):
    step_txt = ("Bounded symbolic model checking of the real SSA of gkvlite: inputs (key/value/priority bytes, "
                "random numbers, targets) are SMT variables, structural choices (tree shape, cache state, operation) "
                "are enumerated as paths, every data-dependent branch is decided by z3; each completed path covers all "
                "inputs satisfying its path condition. ")

    prop("C06",
         quick=[run("C06_step", covers=["done", "delivered", "empty-range", "stopped-early"], nmax=2, cache=1, cmps=1),
                run("C06_step", covers=["done", "delivered", "stopped-early"], nmin=2, nmax=2, cache=0, store=0, cmps=3)],
         thorough=[run("C06_step", covers=["done", "delivered", "empty-range", "stopped-early"], nmax=2, cache=1, cmps=3, klen=2, budget=3000),
                   run("C06_step", covers=["done", "delivered", "stopped-early"], nmin=3, nmax=3, cache=2, cmps=1, budget=3000),
                   run("C06_step", covers=["done", "delivered", "stopped-early"], nmin=4, nmax=4, cache=0, store=0, cmps=2, budget=3000)],
         outside=["collections with more than 3 (quick 2..3) / 4 items", "comparators other than bytes.Compare, its reverse and reversed-string order", "IterateAscend/IterateDescend are covered under C18"],
         text=step_txt + "Oracle: the model's items filtered by the target, ordered by the comparator, cut at the stop position, depth = the depth assigned by the pre-state constructor.",
         note=NOTE, technique=TECH, design_ref="DESIGN.md §4 C06")

    prop("C09",
         quick=[run("C09_readonly", covers=["done"], nmax=1, cache=1),
                run("C09_readonly", covers=["done"], nmin=2, nmax=2, cache=2, budget=900),
                run("C09_append", covers=["done", "flushed"], nmax=1, cache=1, ops=2)],
         thorough=[run("C09_readonly", covers=["done"], nmax=2, cache=1, budget=3000),
                   run("C09_readonly", covers=["done"], nmin=3, nmax=3, cache=2, budget=3000),
                   run("C09_append", covers=["done", "flushed"], nmax=2, cache=1, ops=2, budget=3000),
                   run("C09_append", covers=["done", "flushed"], nmax=1, cache=1, ops=3, budget=3000)],
         outside=["tools/view (uses os.File, not encoded)", "FlushRevert truncation is checked under C08", "histories longer than ops steps after the constructed pre-state"],
         text=step_txt + "Monitors on the harness StoreFile: every WriteAt offset >= end of the last durable root record, no truncate, durable prefix byte-for-byte unchanged; read-only entry points issue zero writes/truncates.",
         note=NOTE, technique=TECH, design_ref="DESIGN.md §4 C09")

    inv_cov = ["done", "insert-new", "delete-hit"]
    prop("C13",
         quick=[run("C13_step", covers=inv_cov + ["decoded", "reopened"], nmax=2, cache=1, decode=1),
                run("C13_step", covers=inv_cov, nmin=3, nmax=3, store=0, cache=0, variant=1),
                run("C13_step", covers=inv_cov + ["canonical-checked"], nmax=3, store=0, cache=0, variant=2)],
         thorough=[run("C13_step", covers=inv_cov + ["decoded", "reopened"], nmax=2, cache=1, decode=1, klen=2, vlen=2, budget=3000),
                   run("C13_step", covers=inv_cov + ["decoded"], nmin=3, nmax=3, cache=1, decode=1, budget=3000),
                   run("C13_step", covers=inv_cov, nmin=4, nmax=4, store=0, cache=0, variant=1, budget=3000),
                   run("C13_step", covers=inv_cov + ["canonical-checked"], nmax=3, store=0, cache=0, variant=2, ops=2, budget=3000),
                   run("C13_step", covers=inv_cov + ["canonical-checked"], nmin=4, nmax=4, store=0, cache=0, variant=2, budget=3000)],
         outside=["trees with more than 3 / 4 items before the step(s)", "more than 2 consecutive operations from a constructed state"],
         text=step_txt + "After the step every node is walked directly: search order, exact numNodes/numBytes; heap order when no priority is lowered; with distinct priorities the reported depth of every item equals the canonical-depth formula over keys and priorities (ranking decided by the solver); the independent decoder re-checks persisted aggregates and children-before-parents.",
         note=NOTE, technique=TECH, design_ref="DESIGN.md §4 C13")

    prop("C14",
         quick=KERNELS + [run("C14_fmt", covers=["done"], nmax=2, cache=1),
                          run("C14_fmt", covers=["done", "copied"], nmax=2, cache=2, copyto=1)],
         thorough=KERNELS + [run("C14_fmt", covers=["done"], nmax=2, cache=1, klen=2, vlen=2, budget=3000),
                             run("C14_fmt", covers=["done"], nmin=3, nmax=3, cache=1, budget=3000)],
         outside=["collection names other than a, b", "files with more than 2 collections"],
         text="Full-width kernel proofs (all 2^32/2^64 field values) of the item-header, ploc and node-record encoders/decoders against an independent big-endian byte spec; plus bounded symbolic model checking that files written by Flush/CopyTo from every constructed state decode, with an independent decoder sharing no code with gkvlite, to exactly the model.",
         note=NOTE, technique="symbolic execution of go/ssa + SMT (z3, QF_BV): full-width kernels + bounded state step", design_ref="DESIGN.md §4 C14")

    prop("C19",
         quick=[run("C19_open", covers=["done"], nmax=3),
                run("C19_keyonly", covers=["done", "some-reads"], nmax=2, preop=0),
                run("C19_keyonly", covers=["done", "some-reads"], nmax=1, preop=1)],
         thorough=[run("C19_open", covers=["done"], nmax=4, klen=2, vlen=2),
                   run("C19_keyonly", covers=["done", "some-reads"], nmax=2, preop=1, budget=3000),
                   run("C19_keyonly", covers=["done", "some-reads"], nmin=3, nmax=3, preop=0, budget=3000)],
         outside=["files holding more than 3 / 4 items", "values longer than 2 bytes"],
         text=step_txt + "The harness StoreFile logs every read; the independent decoder supplies the byte ranges of every value and of the root record; assertion: opening reads only the root record (at most 2 reads, none below it), key-only operations issue no read intersecting any value range.",
         note=NOTE, technique=TECH, design_ref="DESIGN.md §4 C19")

    claimed = {"C01", "C06", "C09", "C13", "C14", "C19"}
    for pid in ALL:
        if pid not in claimed:
            NOT_APPLICABLE.append({"property_id": pid, "reason": "check not built yet in this session (interim state; see DESIGN.md build order)"})
