package gkvlite

// vDecode: an independent decoder of the version-4 file layout.  It shares no
// code with gkvlite (own big-endian readers, own JSON parser, own constants
// taken from the property text) and reconstructs the flushed state from the
// root record that ends at a given position.

type vDecItem struct {
	key, val []byte
	prio     int32
	off      int64 // item record offset
	length   int64 // item record length
	valOff   int64 // offset of the first value byte
	nodeOff  int64 // offset of the node record that points at the item
	depth    int
}

type vDecColl struct {
	name  string
	items []vDecItem // in key (in-order) sequence
	num   uint64     // aggregate stored in the root node
	bytes uint64
}

type vDecoded struct {
	ok        bool
	why       string
	rootStart int64
	rootEnd   int64
	colls     []vDecColl
	nodeRecs  int
	itemRecs  int
	itemBytes int64 // sum of item record lengths reachable from the root
}

const (
	vMagicBeg = "0g1t2r"
	vMagicEnd = "3e4a5p"
)

func vbe(d []byte, off int64, n int) uint64 {
	var v uint64
	for k := 0; k < n; k++ {
		v = v<<8 | uint64(d[off+int64(k)])
	}
	return v
}

func vHasStr(d []byte, off int64, s string) bool {
	if off < 0 || off+int64(len(s)) > int64(len(d)) {
		return false
	}
	for k := 0; k < len(s); k++ {
		if d[off+int64(k)] != s[k] {
			return false
		}
	}
	return true
}

func (r *vDecoded) fail(why string) *vDecoded {
	r.ok = false
	if r.why == "" {
		r.why = why
	}
	return r
}

// vDecode decodes the store state whose root record ends at position end.
func vDecode(d []byte, end int64) *vDecoded {
	r := &vDecoded{ok: true, rootEnd: end}
	if end < 46 || end > int64(len(d)) {
		return r.fail("no room for a root record")
	}
	if !vHasStr(d, end-12, vMagicEnd+vMagicEnd) {
		return r.fail("no doubled end marker")
	}
	off := int64(vbe(d, end-24, 8))
	length := int64(vbe(d, end-16, 4))
	if off < 0 || off+length != end || length < 46 {
		return r.fail("trailer offset/length inconsistent")
	}
	r.rootStart = off
	if !vHasStr(d, off, vMagicBeg+vMagicBeg) {
		return r.fail("no doubled begin marker")
	}
	if vbe(d, off+12, 4) != 4 {
		return r.fail("version is not 4")
	}
	if int64(vbe(d, off+16, 4)) != length {
		return r.fail("header length differs from trailer length")
	}
	js := d[off+20 : end-24]
	p := &vJSON{d: js}
	if !p.lit('{') {
		return r.fail("json: expected {")
	}
	first := true
	for {
		p.ws()
		if p.peek('}') {
			p.pos++
			break
		}
		if !first && !p.lit(',') {
			return r.fail("json: expected ,")
		}
		first = false
		name, ok := p.str()
		if !ok || !p.lit(':') || !p.lit('{') {
			return r.fail("json: bad member")
		}
		var o, l int64
		var haveO, haveL bool
		for k := 0; k < 2; k++ {
			if k > 0 && !p.lit(',') {
				return r.fail("json: expected , in loc")
			}
			fn, ok := p.str()
			if !ok || !p.lit(':') {
				return r.fail("json: bad loc member")
			}
			v, ok := p.num()
			if !ok {
				return r.fail("json: bad number")
			}
			switch fn {
			case "o":
				o, haveO = v, true
			case "l":
				l, haveL = v, true
			default:
				return r.fail("json: unknown loc field")
			}
		}
		if !p.lit('}') || !haveO || !haveL {
			return r.fail("json: bad loc")
		}
		c := vDecColl{name: name}
		if !(o == 0 && l == 0) {
			n, b := r.node(d, &c, o, l, off, 0)
			c.num, c.bytes = n, b
		}
		r.colls = append(r.colls, c)
	}
	p.ws()
	if p.pos != len(js) {
		return r.fail("json: trailing bytes")
	}
	return r
}

// node decodes the node record at (o,l) and its subtree; limit is the offset
// below which every record of the subtree must lie.
func (r *vDecoded) node(d []byte, c *vDecColl, o, l, limit int64, depth int) (uint64, uint64) {
	if l != 52 {
		r.fail("node record length is not 52")
		return 0, 0
	}
	if o < 0 || o+52 > limit {
		r.fail("node record not below its parent/root")
		return 0, 0
	}
	if depth > 64 {
		r.fail("tree too deep / cyclic")
		return 0, 0
	}
	r.nodeRecs++
	io, il := int64(vbe(d, o, 8)), int64(vbe(d, o+8, 4))
	lo, ll := int64(vbe(d, o+12, 8)), int64(vbe(d, o+20, 4))
	ro, rl := int64(vbe(d, o+24, 8)), int64(vbe(d, o+32, 4))
	num, byt := vbe(d, o+36, 8), vbe(d, o+44, 8)
	var ln, lb, rn, rb uint64
	if !(lo == 0 && ll == 0) {
		ln, lb = r.node(d, c, lo, ll, o, depth+1)
	}
	// item record
	if il < 16 || io < 0 || io+il > o {
		r.fail("item record not below its node")
		return 0, 0
	}
	tot := int64(vbe(d, io, 4))
	kl := int64(vbe(d, io+4, 4))
	vl := int64(vbe(d, io+8, 4))
	pr := int32(uint32(vbe(d, io+12, 4)))
	if tot != il || tot != 16+kl+vl {
		r.fail("item record length fields inconsistent")
		return 0, 0
	}
	r.itemRecs++
	r.itemBytes += il
	c.items = append(c.items, vDecItem{
		key: d[io+16 : io+16+kl], val: d[io+16+kl : io+16+kl+vl], prio: pr,
		off: io, length: il, valOff: io + 16 + kl, nodeOff: o, depth: depth,
	})
	if !(ro == 0 && rl == 0) {
		rn, rb = r.node(d, c, ro, rl, o, depth+1)
	}
	if num != ln+rn+1 {
		r.fail("stored numNodes is not the subtree item count")
	}
	if byt != lb+rb+uint64(kl+vl) {
		r.fail("stored numBytes is not the subtree byte total")
	}
	return ln + rn + 1, lb + rb + uint64(kl+vl)
}

// ---- a tiny JSON reader for {"name":{"o":N,"l":N},...}

type vJSON struct {
	d   []byte
	pos int
}

func (p *vJSON) ws() {
	for p.pos < len(p.d) && (p.d[p.pos] == ' ' || p.d[p.pos] == '\n' || p.d[p.pos] == '\t' || p.d[p.pos] == '\r') {
		p.pos++
	}
}

func (p *vJSON) peek(c byte) bool {
	p.ws()
	return p.pos < len(p.d) && p.d[p.pos] == c
}

func (p *vJSON) lit(c byte) bool {
	if p.peek(c) {
		p.pos++
		return true
	}
	return false
}

func (p *vJSON) str() (string, bool) {
	if !p.lit('"') {
		return "", false
	}
	var out []byte
	for p.pos < len(p.d) {
		c := p.d[p.pos]
		p.pos++
		if c == '"' {
			return string(out), true
		}
		if c == '\\' {
			return "", false // names with escapes are outside the harness' name set
		}
		out = append(out, c)
	}
	return "", false
}

func (p *vJSON) num() (int64, bool) {
	p.ws()
	neg := false
	if p.pos < len(p.d) && p.d[p.pos] == '-' {
		neg = true
		p.pos++
	}
	start := p.pos
	var v int64
	for p.pos < len(p.d) && p.d[p.pos] >= '0' && p.d[p.pos] <= '9' {
		v = v*10 + int64(p.d[p.pos]-'0')
		p.pos++
	}
	if p.pos == start {
		return 0, false
	}
	if neg {
		v = -v
	}
	return v, true
}

// vCheckDecoded: the decoded state equals the models (names sorted).
func vCheckDecoded(label string, dec *vDecoded, names []string, models []*vModel) {
	vAssert(label+":decodes", dec.ok)
	if !dec.ok {
		vTrace("decode failure: " + dec.why)
		return
	}
	vAssert(label+":names", len(dec.colls) == len(names))
	if len(dec.colls) != len(names) {
		return
	}
	for ci := range names {
		dc := dec.colls[ci]
		m := models[ci]
		vAssert(label+":name", dc.name == names[ci])
		vAssert(label+":count", len(dc.items) == len(m.ents))
		if len(dc.items) != len(m.ents) {
			continue
		}
		for i := range m.ents {
			vAssert(label+":key", vBytesEq(dc.items[i].key, m.ents[i].key))
			vAssert(label+":val", vBytesEq(dc.items[i].val, m.ents[i].val))
			vAssert(label+":prio", dc.items[i].prio == m.ents[i].prio)
		}
		mn, mb := m.totals()
		vAssert(label+":aggregates", vAnd(dc.num == mn, dc.bytes == mb))
	}
}
