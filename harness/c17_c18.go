package gkvlite

// C17 (neutral callbacks, relational) and C18 (iterators / re-entrant callbacks).

import (
	"bytes"
	"errors"
	"io"
)

const (
	cbAlloc = 1 << iota
	cbValLength
	cbValWrite
	cbValRead
	cbBeforeWrite
	cbAfterRead
	cbKeyCompare
	cbRefs
	cbKeyCompareNil
	cbPadded // NOT neutral in the property's sense: stores one pad byte per value
)

func vNeutralCallbacks(mask int) StoreCallbacks {
	var cb StoreCallbacks
	if mask&cbAlloc != 0 {
		cb.ItemAlloc = func(c *Collection, keyLength uint32) *Item {
			return &Item{Key: make([]byte, keyLength), Transient: "custom-alloc"}
		}
	}
	if mask&cbValLength != 0 {
		cb.ItemValLength = func(c *Collection, i *Item) int { return len(i.Val) }
	}
	if mask&cbValWrite != 0 {
		cb.ItemValWrite = func(c *Collection, i *Item, w io.WriterAt, offset int64) error {
			h := len(i.Val) / 2
			if _, err := w.WriteAt(i.Val[:h], offset); err != nil {
				return err
			}
			_, err := w.WriteAt(i.Val[h:], offset+int64(h))
			return err
		}
	}
	if mask&cbValRead != 0 {
		cb.ItemValRead = func(c *Collection, i *Item, r io.ReaderAt, offset int64, valLength uint32) error {
			i.Val = make([]byte, valLength)
			h := int(valLength) / 2
			if _, err := r.ReadAt(i.Val[:h], offset); err != nil {
				return err
			}
			_, err := r.ReadAt(i.Val[h:], offset+int64(h))
			return err
		}
	}
	if mask&cbBeforeWrite != 0 {
		cb.BeforeItemWrite = func(c *Collection, i *Item) (*Item, error) { return i, nil }
	}
	if mask&cbAfterRead != 0 {
		cb.AfterItemRead = func(c *Collection, i *Item) (*Item, error) { return i, nil }
	}
	if mask&cbKeyCompare != 0 {
		cb.KeyCompareForCollection = func(name string) KeyCompare {
			return func(a, b []byte) int { return bytes.Compare(a, b) }
		}
	}
	if mask&cbPadded != 0 {
		// slab-style storage: the on-disk value is one byte longer than Val
		cb.ItemValLength = func(c *Collection, i *Item) int { return len(i.Val) + 1 }
		cb.ItemValWrite = func(c *Collection, i *Item, w io.WriterAt, offset int64) error {
			b := append(append([]byte(nil), i.Val...), 0xAA)
			_, err := w.WriteAt(b, offset)
			return err
		}
		cb.ItemValRead = func(c *Collection, i *Item, r io.ReaderAt, offset int64, valLength uint32) error {
			b := make([]byte, valLength)
			if _, err := r.ReadAt(b, offset); err != nil {
				return err
			}
			if valLength == 0 || b[valLength-1] != 0xAA {
				return errors.New("padded value: framing byte missing")
			}
			i.Val = b[:valLength-1]
			return nil
		}
	}
	if mask&cbKeyCompareNil != 0 {
		// the documented way of saying "use the default comparator"
		cb.KeyCompareForCollection = func(name string) KeyCompare { return nil }
	}
	if mask&cbRefs != 0 {
		cb.ItemAddRef = func(c *Collection, i *Item) {}
		cb.ItemDecRef = func(c *Collection, i *Item) {}
	}
	return cb
}

type vRelSide struct {
	s  *Store
	c  *Collection
	f  *vFile
	cb StoreCallbacks
}

func vSameItem(label string, a, b *Item, wv bool) {
	vAssert(label+":nil-ness", (a == nil) == (b == nil))
	if a == nil || b == nil {
		return
	}
	vAssert(label+":key", vBytesEq(a.Key, b.Key))
	vAssert(label+":prio", a.Priority == b.Priority)
	if wv {
		vAssert(label+":val", vAnd((a.Val == nil) == (b.Val == nil), vBytesEq(a.Val, b.Val)))
	}
}

func vH_C17_rel() {
	masks := []int{0xff, cbAlloc, cbValLength, cbValWrite, cbValRead, cbBeforeWrite, cbAfterRead, cbKeyCompare, cbRefs, cbKeyCompareNil, cbPadded}
	var mask int
	if vParam("allsubsets") == 1 {
		mask = vChoose("callback-subset", 1, 511)
		if vChoose("padded-too", 0, 1) == 1 {
			mask = cbPadded
		}
	} else {
		mask = masks[vChoose("callback-config", 0, len(masks)-1)]
	}
	vTraceInt("callbacks", mask)
	padded := mask&cbPadded != 0
	var side [2]vRelSide
	for k := 0; k < 2; k++ {
		f := &vFile{}
		var cb StoreCallbacks
		if k == 1 {
			cb = vNeutralCallbacks(mask)
		}
		s, err := NewStoreEx(f, cb)
		vAssert("newstore", vAnd(err == nil, s != nil))
		side[k] = vRelSide{s, s.SetCollection("a", nil), f, cb}
	}
	m := &vModel{cmp: vCmpDefault}
	steps := vParam("k")
	for st := 0; st < steps; st++ {
		op := vChoose("op", 0, 6)
		key := vBytes("k", 1)
		switch op {
		case 0:
			vTrace("SetItem")
			val := vBytes("v", vChoose("vlen", 0, vParam("vlen")))
			p := vInt32("p")
			vAssume(p >= 0)
			var e [2]error
			for k := 0; k < 2; k++ {
				e[k] = side[k].c.SetItem(&Item{Key: key, Val: val, Priority: p})
			}
			vAssert("set:same-result", vAnd(e[0] == nil, e[1] == nil))
			m.set(key, val, p)
		case 1:
			vTrace("Delete")
			w0, e0 := side[0].c.Delete(key)
			w1, e1 := side[1].c.Delete(key)
			vAssert("delete:same-result", vAnd(vAnd(e0 == nil, e1 == nil), w0 == w1))
			m.del(key)
		case 2:
			vTrace("GetItem")
			wv := vChoose("wv", 0, 1) == 1
			a, e0 := side[0].c.GetItem(key, wv)
			b, e1 := side[1].c.GetItem(key, wv)
			vAssert("get:errors", vAnd(e0 == nil, e1 == nil))
			vSameItem("get", a, b, wv)
		case 3:
			vTrace("Flush")
			vAssert("flush:same-result", vAnd(side[0].s.Flush() == nil, side[1].s.Flush() == nil))
		case 4:
			vTrace("VisitItemsAscend")
			var got [2][]vSeen
			for k := 0; k < 2; k++ {
				kk := k
				err := side[k].c.VisitItemsAscendEx(key, true, func(i *Item, d uint64) bool {
					got[kk] = append(got[kk], vSeen{i.Key, i.Val, i.Priority, d})
					return true
				})
				vAssert("visit:noerr", err == nil)
			}
			vAssert("visit:same-count", len(got[0]) == len(got[1]))
			if len(got[0]) == len(got[1]) {
				for i := range got[0] {
					vAssert("visit:same-item", vAnd(vBytesEq(got[0][i].key, got[1][i].key),
						vAnd(vBytesEq(got[0][i].val, got[1][i].val), vAnd(got[0][i].prio == got[1][i].prio, got[0][i].depth == got[1][i].depth))))
				}
			}
		case 5:
			vTrace("Flush+Reopen")
			for k := 0; k < 2; k++ {
				vAssert("reopen:flush", side[k].s.Flush() == nil)
				s2, err := NewStoreEx(side[k].f, side[k].cb)
				vAssert("reopen:ok", vAnd(err == nil, s2 != nil))
				side[k].s = s2
				side[k].c = s2.GetCollection("a")
				vAssert("reopen:coll", side[k].c != nil)
			}
			vCover("reopened")
		case 6:
			vTrace("MinMax+Totals")
			a, e0 := side[0].c.MinItem(true)
			b, e1 := side[1].c.MinItem(true)
			vAssert("min:errors", vAnd(e0 == nil, e1 == nil))
			vSameItem("min", a, b, true)
			a, e0 = side[0].c.MaxItem(false)
			b, e1 = side[1].c.MaxItem(false)
			vAssert("max:errors", vAnd(e0 == nil, e1 == nil))
			vSameItem("max", a, b, false)
			n0, b0, _ := side[0].c.GetTotals()
			n1, b1, _ := side[1].c.GetTotals()
			if padded {
				// self-consistency: the byte total counts the callback's lengths
				vAssert("totals:consistent-with-ItemValLength", vAnd(n0 == n1, b1 == b0+n0))
			} else {
				vAssert("totals:same", vAnd(n0 == n1, b0 == b1))
			}
		}
	}
	// final: both flushed files are identical byte for byte and decode to the model
	for k := 0; k < 2; k++ {
		vAssert("final:flush", side[k].s.Flush() == nil)
	}
	if padded {
		n0, b0, _ := side[0].c.GetTotals()
		n1, b1, _ := side[1].c.GetTotals()
		vAssert("final:totals-consistent-with-ItemValLength", vAnd(n0 == n1, b1 == b0+n0))
		seen, err := vAscendAll(side[1].c, true)
		vAssert("final:padded-visit", vAnd(err == nil, len(seen) == len(m.ents)))
		if len(seen) == len(m.ents) {
			for i := range seen {
				vAssert("final:padded-item", vAnd(vBytesEq(seen[i].key, m.ents[i].key), vBytesEq(seen[i].val, m.ents[i].val)))
			}
		}
		vCover("done")
		return
	}
	vAssert("final:file-length", len(side[0].f.data) == len(side[1].f.data))
	if len(side[0].f.data) == len(side[1].f.data) {
		vAssert("final:file-bytes", vBytesEq(side[0].f.data, side[1].f.data))
	}
	dec := vDecode(side[1].f.data, int64(len(side[1].f.data)))
	vCheckDecoded("final:decoded", dec, []string{"a"}, []*vModel{m})
	vCheckColl("final:with-callbacks", side[1].c, m)
	vCover("done")
}

// ------------------------------------------------------------------ C18

func vWaitIdle() {
	// let every other goroutine run until it exits or blocks
	for k := 0; k < 64; k++ {
		vYieldAll()
	}
}

func vH_C18_iter() {
	cfg := vCfgFromParams()
	pre := vBuildPre(cfg)
	cfg = pre.cfg
	c, m := pre.c, pre.m
	descend := vChoose("descend", 0, 1) == 1
	var it ItemIterator
	if descend {
		vTrace("IterateDescend")
		it = c.IterateDescend([]byte{0xff, 0xff, 0xff}, true)
	} else {
		vTrace("IterateAscend")
		it = c.IterateAscend(nil, true)
	}
	// expected sequence
	var want []int
	if descend {
		for i := len(m.ents) - 1; i >= 0; i-- {
			want = append(want, i)
		}
	} else {
		for i := range m.ents {
			want = append(want, i)
		}
	}
	// optionally one failing file call while the iterator is open: whatever it
	// delivers, it must still terminate cleanly
	faulty := false
	if pre.f != nil && vParam("iterfault") == 1 {
		if k := vChoose("iter-fail-at", 0, 3); k > 0 {
			pre.f.failAt = k
			faulty = true
			vTrace("file-fault-armed")
		}
	}
	calls := vChoose("calls", 0, len(m.ents)+2)
	got := 0
	closed := false
	exhausted := false
	mutateAt := -1
	nextCalls := 0
	if vParam("itermut") == 1 {
		mutateAt = vChoose("mutate-after-call", -1, calls-1)
	}
	for k := 0; k < calls; k++ {
		if k == mutateAt && mutateAt >= 0 && nextCalls > 0 {
			// (only after the first Next: the producer pins its version when
			// the first Next arrives, not when the iterator is created)
			// the consumer mutates while the iterator is open: the version the
			// producer pinned is superseded
			vTrace("Set(during-iteration)")
			vAssert("iter-mutation-ok", c.SetItem(&Item{Key: []byte{0x7f, 0x01}, Val: []byte{1}, Priority: 3}) == nil)
		}
		if vChoose("close-now", 0, 1) == 1 {
			vTrace("Close")
			it.Close()
			closed = true
			continue
		}
		vTrace("Next")
		ok := it.Next()
		nextCalls++
		if closed || exhausted {
			vAssert("next-after-end-is-false", !ok)
			continue
		}
		if faulty {
			// contents under a fault are C07's subject; here only termination
			if !ok {
				exhausted = true
			}
			continue
		}
		if got < len(want) {
			vAssert("next-delivers", ok)
			if ok {
				r := it.Result()
				vAssert("iter-item", vAnd(r != nil, r == nil || vBytesEq(r.Key, m.ents[want[got]].key)))
				if r != nil {
					vAssert("iter-val", vBytesEq(r.Val, m.ents[want[got]].val))
				}
			}
			got++
		} else {
			vAssert("next-exhausted-false", !ok)
			exhausted = true
			vCover("exhausted")
		}
	}
	if !closed && !exhausted {
		vTrace("Close(final)")
		it.Close()
		closed = true
	}
	vAssert("next-after-close-false", !it.Next())
	if !faulty {
		vAssert("iter-err-nil", it.Err() == nil)
	} else {
		pre.f.failAt = 0
		vCover("iterated-under-fault")
	}
	// a read-only statistics call racing with the producer's release
	c.AllocStats()
	vWaitIdle()
	vAssert("producer-goroutine-exited", vLiveGoroutines() == 0)
	vAssert("version-released", c.root.refs == 1)
	if closed {
		vCover("closed")
	}
	vCover("done")
}

func vH_C18_reentrant() {
	cfg := vCfgFromParams()
	pre := vBuildPre(cfg)
	cfg = pre.cfg
	c, m, s := pre.c, pre.m, pre.s
	if len(m.ents) == 0 {
		return
	}
	nested := vChoose("nested-op", 0, 8)
	key := vKeyArg("nk", cfg.klen)
	val := vBytes("nv", 1)
	prio := vInt32("np")
	vAssume(prio >= 0)
	before := m.clone()
	calls := 0
	var outer []vSeen
	visit := func(i *Item) bool {
		calls++
		outer = append(outer, vSeen{i.Key, i.Val, i.Priority, 0})
		if calls > 1 {
			return true
		}
		switch nested {
		case 0:
			vTrace("nested:GetItem")
			it, err := c.GetItem(key, true)
			vAssert("nested-get", err == nil)
			if j := before.find(key); j >= 0 {
				vAssert("nested-get-val", vAnd(it != nil, it == nil || vBytesEq(it.Val, before.ents[j].val)))
			} else {
				vAssert("nested-get-nil", it == nil)
			}
		case 1:
			vTrace("nested:MinItem")
			it, err := c.MinItem(false)
			vAssert("nested-min", vAnd(err == nil, it != nil))
		case 2:
			vTrace("nested:Visit")
			n := 0
			err := c.VisitItemsAscend(nil, false, func(*Item) bool { n++; return true })
			vAssert("nested-visit", vAnd(err == nil, n == len(before.ents)))
		case 3:
			vTrace("nested:SetItem")
			vAssert("nested-set", c.SetItem(&Item{Key: key, Val: val, Priority: prio}) == nil)
			m.set(key, val, prio)
		case 4:
			vTrace("nested:Delete")
			was, err := c.Delete(key)
			vAssert("nested-delete", vAnd(err == nil, was == m.del(key)))
		case 5:
			vTrace("nested:Snapshot")
			sn := s.Snapshot()
			sc := sn.GetCollection(cfg.name)
			vAssert("nested-snapshot", sc != nil)
			sn.Close()
		case 6:
			vTrace("nested:GetTotals+Names")
			_, _, err := c.GetTotals()
			vAssert("nested-totals", err == nil)
			s.GetCollectionNames()
		case 7:
			vTrace("nested:Flush")
			if pre.f != nil {
				vAssert("nested-flush", s.Flush() == nil)
			}
		case 8:
			vTrace("nested:Evict")
			c.EvictSomeItems()
		}
		return true
	}
	var err error
	desc := vChoose("descend", 0, 1) == 1
	if desc {
		err = c.VisitItemsDescend([]byte{0xff, 0xff, 0xff}, true, visit)
	} else {
		err = c.VisitItemsAscend(nil, true, visit)
	}
	vAssert("outer-visit-noerr", err == nil)
	vAssert("outer-visit-saw-pinned-version", calls == len(before.ents))
	if len(outer) == len(before.ents) {
		for k := range outer {
			j := k
			if desc {
				j = len(outer) - 1 - k
			}
			vAssert("outer-visit-item", vAnd(vBytesEq(outer[k].key, before.ents[j].key),
				vAnd(outer[k].val != nil, vBytesEq(outer[k].val, before.ents[j].val))))
		}
	}
	vCheckColl("after-reentrant", c, m)
	vCover("done")
}
