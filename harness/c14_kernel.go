package gkvlite

// C14 KERNEL harnesses: full-width (no bound but the machine word) checks of
// the byte-level encoders/decoders against an independent big-endian spec.

func vSpecBE(b []byte, off int, v uint64, nbytes int) bool {
	ok := true
	for k := 0; k < nbytes; k++ {
		shift := uint(8 * (nbytes - 1 - k))
		ok = vAnd(ok, b[off+k] == byte(v>>shift))
	}
	return ok
}

func vReadBE(b []byte, off int, nbytes int) uint64 {
	var v uint64
	for k := 0; k < nbytes; k++ {
		v = v<<8 | uint64(b[off+k])
	}
	return v
}

// K1: item header render / populate.
func vH_C14_kernel_item() {
	length := vUint32("length")
	kl := vUint32("keyLength")
	vl := vUint32("valLength")
	pri := vInt32("priority")
	extra := vChoose("extra", 0, 2)
	ds := itemBa{length: length, keyLength: keyP(kl), valLength: vl, priority: pri}
	b := ds.render(16 + extra)
	vAssert("render-len", len(b) == 16+extra)
	vAssert("render-length", vSpecBE(b, 0, uint64(length), 4))
	vAssert("render-keylen", vSpecBE(b, 4, uint64(kl), 4))
	vAssert("render-vallen", vSpecBE(b, 8, uint64(vl), 4))
	vAssert("render-priority", vSpecBE(b, 12, uint64(uint32(pri)), 4))
	for k := 16; k < 16+extra; k++ {
		vAssert("render-tail-zero", b[k] == 0)
	}
	var d2 itemBa
	d2.populate(b)
	vAssert("roundtrip", vAnd(vAnd(d2.getLength() == length, uint32(d2.getKeyLength()) == kl),
		vAnd(d2.getValLength() == vl, d2.getPriority() == pri)))
	// decode of arbitrary bytes
	raw := vBytes("raw", 16)
	var d3 itemBa
	d3.populate(raw)
	vAssert("populate-length", uint64(d3.getLength()) == vReadBE(raw, 0, 4))
	vAssert("populate-keylen", uint64(d3.getKeyLength()) == vReadBE(raw, 4, 4))
	vAssert("populate-vallen", uint64(d3.getValLength()) == vReadBE(raw, 8, 4))
	vAssert("populate-priority", uint64(uint32(d3.getPriority())) == vReadBE(raw, 12, 4))
	vCover("done")
}

// K2: ploc write / read, including the empty sentinel.
func vH_C14_kernel_ploc() {
	off := vInt64("offset")
	ln := vUint32("length")
	pos := vChoose("pos", 0, 3)
	b := make([]byte, pos+12+1)
	var p *ploc
	isNil := vChoose("nil", 0, 1) == 1
	if !isNil {
		p = &ploc{Offset: off, Length: ln}
	}
	np := p.write(b, pos)
	vAssert("write-pos", np == pos+12)
	if isNil {
		vAssert("write-nil-zero", vAnd(vSpecBE(b, pos, 0, 8), vSpecBE(b, pos+8, 0, 4)))
		vCover("nil")
	} else {
		vAssert("write-offset", vSpecBE(b, pos, uint64(off), 8))
		vAssert("write-length", vSpecBE(b, pos+8, uint64(ln), 4))
	}
	vAssert("write-untouched", vAnd(b[pos+12] == 0, pos == 0 || b[0] == 0))
	q := &ploc{}
	r, rp := q.read(b, pos)
	vAssert("read-pos", rp == pos+12)
	empty := isNil
	if !isNil {
		empty = vAnd(off == 0, ln == 0)
	}
	if empty {
		vAssert("read-empty-nil", r == nil)
		vCover("empty")
	} else {
		vAssert("read-nonnil", r != nil)
		vAssert("read-roundtrip", vAnd(r.Offset == off, r.Length == ln))
		vAssert("isEmpty-false", !r.isEmpty())
		vCover("nonempty")
	}
}

// K3: node record (3 plocs + 2 u64 = 52 bytes).
func vH_C14_kernel_node() {
	var n node
	mk := func(name string) (*ploc, int64, uint32) {
		o := vInt64(name + ".o")
		l := vUint32(name + ".l")
		if vChoose(name+".nil", 0, 1) == 1 {
			return nil, 0, 0
		}
		return &ploc{Offset: o, Length: l}, o, l
	}
	ip, io, il := mk("item")
	lp, lo, ll := mk("left")
	rp, ro, rl := mk("right")
	n.item.loc, n.left.loc, n.right.loc = ip, lp, rp
	n.numNodes = vUint64("numNodes")
	n.numBytes = vUint64("numBytes")
	b, err := n.populateDiskStruct(52)
	vAssert("encode-noerr", err == nil)
	vAssert("encode-len", len(b) == 52)
	vAssert("encode-item", vAnd(vSpecBE(b, 0, uint64(io), 8), vSpecBE(b, 8, uint64(il), 4)))
	vAssert("encode-left", vAnd(vSpecBE(b, 12, uint64(lo), 8), vSpecBE(b, 20, uint64(ll), 4)))
	vAssert("encode-right", vAnd(vSpecBE(b, 24, uint64(ro), 8), vSpecBE(b, 32, uint64(rl), 4)))
	vAssert("encode-numNodes", vSpecBE(b, 36, n.numNodes, 8))
	vAssert("encode-numBytes", vSpecBE(b, 44, n.numBytes, 8))
	_, err = n.populateDiskStruct(53 + vChoose("badlen", 0, 1))
	vAssert("encode-badlen-err", err != nil)

	m, err := populateNode(b)
	vAssert("decode-noerr", vAnd(err == nil, m != nil))
	chk := func(label string, got *ploc, o int64, l uint32) {
		if vAnd(o == 0, l == 0) {
			vAssert(label+"-empty", got.isEmpty())
		} else {
			vAssert(label+"-nonnil", got != nil)
			vAssert(label+"-eq", vAnd(got.Offset == o, got.Length == l))
		}
	}
	chk("decode-item", m.item.loc, io, il)
	chk("decode-left", m.left.loc, lo, ll)
	chk("decode-right", m.right.loc, ro, rl)
	vAssert("decode-aggregates", vAnd(m.numNodes == n.numNodes, m.numBytes == n.numBytes))
	vAssert("decode-not-cached", vAnd(m.item.item == nil, vAnd(m.left.node == nil, m.right.node == nil)))
	vCover("done")
}
