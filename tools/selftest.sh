#!/bin/sh
# engine self-tests: simplifier vs direct evaluation, evaluator vs z3/cvc5, symbolic scalar ops vs Go arithmetic
cd /verif/engine && GOFLAGS=-mod=mod GOPROXY=off GOSUMDB=off GOTOOLCHAIN=local go test -count=1 ./symgo
