package main

import (
	"encoding/json"
	"flag"
	"fmt"
	"os"
	"path/filepath"
	"runtime"
	"sort"
	"strconv"
	"strings"
	"time"

	"golang.org/x/tools/go/ssa"
)

// ---- configuration (/verif/bounds.json)

type harnessRun struct {
	Harness string         `json:"harness"`
	Params  map[string]int `json:"params"`
	BudgetS int            `json:"budget_s"`
	Covers  []string       `json:"covers"`  // labels that must be reached
	Expect  string         `json:"expect"`  // "" | "violation" (vacuity twin)
	Note    string         `json:"note"`
	Solver  string         `json:"solver"` // "" = z3; "z3-new" | "cvc5" = cross-check run
}

type tierCfg struct {
	Runs []harnessRun `json:"runs"`
}

type propCfg struct {
	Quick    tierCfg `json:"quick"`
	Thorough tierCfg `json:"thorough"`
	Outside  []string `json:"outside_the_claim"`
}

func loadBounds() (map[string]propCfg, error) {
	b, err := os.ReadFile(filepath.Join(verifDir(), "bounds.json"))
	if err != nil {
		return nil, err
	}
	var m map[string]propCfg
	if err := json.Unmarshal(b, &m); err != nil {
		return nil, fmt.Errorf("bounds.json: %v", err)
	}
	return m, nil
}

// ---- known findings (/verif/known_findings.json), never written at run time

type knownFinding struct {
	Property string `json:"property"`
	Status   string `json:"status"` // known | fixed
	Commit   string `json:"commit,omitempty"`
	Harness  string `json:"harness"`        // prefix match; "" = any harness of the property
	Label    string `json:"assert_label"`   // exact
	Pattern  string `json:"trace_pattern"`  // ';'-separated subsequence of trace entries ("" = any)
	Excludes string `json:"trace_excludes,omitempty"` // ';'-separated entries none of which may occur in the trace
	What     string `json:"what"`
}

func loadKnown() []knownFinding {
	b, err := os.ReadFile(filepath.Join(verifDir(), "known_findings.json"))
	if err != nil {
		return nil
	}
	var k []knownFinding
	if err := json.Unmarshal(b, &k); err != nil {
		fmt.Fprintln(os.Stderr, "known_findings.json:", err)
		os.Exit(3)
	}
	return k
}

func (k knownFinding) matches(prop string, v violation) bool {
	if k.Status != "known" || k.Property != prop {
		return false
	}
	if k.Harness != "" && !strings.HasPrefix(v.Harness, k.Harness) {
		return false
	}
	if strings.HasSuffix(k.Label, "*") {
		if !strings.HasPrefix(v.Label, strings.TrimSuffix(k.Label, "*")) {
			return false
		}
	} else if k.Label != v.Label {
		return false
	}
	if k.Excludes != "" {
		for _, x := range strings.Split(k.Excludes, ";") {
			for _, t := range v.Trace {
				if strings.HasPrefix(t, x) {
					return false
				}
			}
		}
	}
	if k.Pattern == "" {
		return true
	}
	want := strings.Split(k.Pattern, ";")
	j := 0
	for _, t := range v.Trace {
		if j < len(want) && strings.HasPrefix(t, want[j]) {
			j++
		}
	}
	return j == len(want)
}

// ---- evidence

type evidence struct {
	PropertyID  string                 `json:"property_id"`
	Tier        string                 `json:"tier"`
	Seed        int                    `json:"seed"`
	Level       string                 `json:"level"`
	Coverage    map[string]interface{} `json:"coverage"`
	Assumptions []string               `json:"assumptions"`
	WallS       float64                `json:"wall_s"`
	Violations  int                    `json:"violations"`
}

func main() {
	if len(os.Args) < 2 {
		fmt.Fprintln(os.Stderr, "usage: symgo check|run|replay|list ...")
		os.Exit(3)
	}
	switch os.Args[1] {
	case "check":
		os.Exit(cmdCheck(os.Args[2:]))
	case "run":
		os.Exit(cmdRun(os.Args[2:]))
	case "replay":
		os.Exit(cmdReplay(os.Args[2:]))
	case "list":
		os.Exit(cmdList())
	}
	fmt.Fprintln(os.Stderr, "unknown command", os.Args[1])
	os.Exit(3)
}

func cmdList() int {
	lr, err := loadProgram()
	if err != nil {
		fmt.Println("load error:", err, lr.loadErrs)
		return 2
	}
	var names []string
	for n, m := range lr.P.pkg.Members {
		if _, ok := m.(*ssa.Function); ok && strings.HasPrefix(n, "vH_") {
			names = append(names, n)
		}
	}
	sort.Strings(names)
	for _, n := range names {
		fmt.Println(n)
	}
	return 0
}

type runResult struct {
	run harnessRun
	ex  *explorer
	wall time.Duration
}

func execRun(P *program, r harnessRun, workers int, defaultBudget time.Duration) (*runResult, error) {
	fn := P.pkg.Func("vH_" + r.Harness)
	if fn == nil {
		return nil, fmt.Errorf("harness function vH_%s not found", r.Harness)
	}
	P.params = map[string]int{"preemptions": 0}
	for k, v := range r.Params {
		P.params[k] = v
	}
	if v, ok := r.Params["step_budget"]; ok {
		P.stepBudget = int64(v)
	} else {
		P.stepBudget = 3_000_000
	}
	P.solverKind = "z3"
	if r.Solver != "" {
		P.solverKind = r.Solver
	}
	budget := defaultBudget
	if r.BudgetS > 0 {
		budget = time.Duration(r.BudgetS) * time.Second
	}
	ex := newExplorer(P, r.Harness, fn, budget)
	if sd := os.Getenv("VERIF_SEED"); sd != "" {
		ex.seed, _ = strconv.Atoi(sd)
		if ex.seed < 0 {
			ex.seed = -ex.seed
		}
	}
	t0 := time.Now()
	ex.run(workers)
	return &runResult{run: r, ex: ex, wall: time.Since(t0)}, nil
}

func cmdRun(args []string) int {
	fs := flag.NewFlagSet("run", flag.ExitOnError)
	harness := fs.String("harness", "", "harness name (without vH_)")
	workers := fs.Int("workers", runtime.NumCPU(), "parallel workers")
	budget := fs.Int("budget", 600, "seconds")
	trace := fs.Bool("trace", false, "trace calls")
	solverK := fs.String("solver", "z3", "z3|z3-new|cvc5")
	confirm := fs.Bool("confirm", false, "replay violations natively")
	verbose := fs.Bool("v", false, "print violations in full")
	var params multiFlag
	fs.Var(&params, "p", "param k=v")
	fs.Parse(args)
	lr, err := loadProgram()
	if err != nil {
		fmt.Println("INCONCLUSIVE load:", err)
		for _, e := range lr.loadErrs {
			fmt.Println("  ", e)
		}
		return 2
	}
	lr.P.trace = *trace
	lr.P.solverKind = *solverK
	gProgram = lr.P
	r := harnessRun{Harness: *harness, Params: map[string]int{}}
	for _, kv := range params {
		p := strings.SplitN(kv, "=", 2)
		n, _ := strconv.Atoi(p[1])
		r.Params[p[0]] = n
	}
	rr, err := execRun(lr.P, r, *workers, time.Duration(*budget)*time.Second)
	if err != nil {
		fmt.Println("INCONCLUSIVE:", err)
		return 2
	}
	printRun(rr)
	seen := map[string]bool{}
	for _, v := range rr.ex.violations {
		if seen[v.Label] {
			continue
		}
		seen[v.Label] = true
		fmt.Printf("violation label=%s kind=%s trace=%v chooses=%v msg=%s\n", v.Label, v.Kind, v.Trace, v.Chooses, firstLine(v.Msg))
		if *confirm {
			path, ok, out := confirmViolation("DEV", v)
			fmt.Printf("   native replay: reproduced=%v file=%s\n", ok, path)
			if !ok {
				fmt.Println("   ", out)
			}
		}
		if *verbose {
			b, _ := json.MarshalIndent(v, "", " ")
			fmt.Println(string(b))
		}
	}
	if len(rr.ex.violations) > 0 {
		return 1
	}
	if rr.ex.nInconcl > 0 || rr.ex.unwinds > 0 || rr.ex.timedOut {
		return 2
	}
	return 0
}

func printRun(rr *runResult) {
	ex := rr.ex
	fmt.Printf("harness %-28s paths=%d ok=%d infeasible=%d stopped=%d unwind=%d inconclusive=%d violations=%d decisions=%d asserts=%d queries=%d (sat %d unsat %d unk %d) solver=%.1fs steps=%d wall=%.1fs timedout=%v\n",
		ex.harness, ex.paths, ex.okPaths, ex.infeasible, ex.stoppedPaths, ex.unwinds, ex.nInconcl, len(ex.violations),
		ex.decisions, ex.asserts, ex.solver.queries, ex.solver.sat, ex.solver.unsat, ex.solver.unknown,
		ex.solver.time.Seconds(), ex.steps, rr.wall.Seconds(), ex.timedOut)
	for _, m := range ex.inconclusive {
		fmt.Println("   inconclusive:", m)
	}
	var cs []string
	for c, n := range ex.covers {
		cs = append(cs, fmt.Sprintf("%s:%d", c, n))
	}
	sort.Strings(cs)
	if len(cs) > 0 {
		fmt.Println("   covers:", strings.Join(cs, " "))
	}
}

type multiFlag []string

func (m *multiFlag) String() string     { return strings.Join(*m, ",") }
func (m *multiFlag) Set(s string) error { *m = append(*m, s); return nil }

func cmdCheck(args []string) int {
	fs := flag.NewFlagSet("check", flag.ExitOnError)
	prop := fs.String("property", "", "property id")
	tier := fs.String("tier", "quick", "quick|thorough")
	workers := fs.Int("workers", runtime.NumCPU(), "parallel workers")
	fs.Parse(args)
	if t := os.Getenv("VERIF_TIER"); t != "" && !isFlagSet(fs, "tier") {
		*tier = t
	}
	seed := 0
	if s := os.Getenv("VERIF_SEED"); s != "" {
		seed, _ = strconv.Atoi(s)
	}
	t0 := time.Now()
	bounds, err := loadBounds()
	if err != nil {
		fmt.Println("INCONCLUSIVE:", err)
		return 2
	}
	pc, ok := bounds[*prop]
	if !ok {
		fmt.Println("INCONCLUSIVE: no configuration for property", *prop)
		return 2
	}
	tc := pc.Quick
	if *tier == "thorough" {
		tc = pc.Thorough
	}
	lr, err := loadProgram()
	if err != nil {
		fmt.Printf("INCONCLUSIVE property=%s: cannot load /repo with the harness overlay: %v\n", *prop, err)
		for k, e := range lr.loadErrs {
			if k < 10 {
				fmt.Println("  ", e)
			}
		}
		writeEvidence(*prop, *tier, seed, nil, nil, time.Since(t0), 0, []string{"load failed: " + err.Error()}, pc)
		return 2
	}
	P := lr.P
	gProgram = P
	known := loadKnown()
	var results []*runResult
	exit := 0
	var problems []string
	nViol := 0
	seenKnown := map[string]bool{}
	for _, r := range tc.Runs {
		rr, err := execRun(P, r, *workers, 10*time.Minute)
		if err != nil {
			fmt.Printf("INCONCLUSIVE property=%s: %v\n", *prop, err)
			problems = append(problems, err.Error())
			if exit == 0 {
				exit = 2
			}
			continue
		}
		results = append(results, rr)
		printRun(rr)
		ex := rr.ex
		if os.Getenv("VERIF_NO_VALIDATE") == "" && len(ex.valSamples) > 0 {
			agree, bad := validateSamples(*prop, ex.valSamples)
			ex.validated = agree
			if len(bad) > 0 {
				msg := fmt.Sprintf("translator validation: native run disagrees with the engine on witness inputs of a passing path (%s)", strings.Join(bad, " ; "))
				fmt.Printf("INCONCLUSIVE property=%s: %s\n", *prop, msg)
				problems = append(problems, msg)
				if exit == 0 {
					exit = 2
				}
			}
		}
		if r.Expect == "violation" {
			// vacuity twin: must come back violated
			if len(ex.violations) == 0 {
				msg := fmt.Sprintf("vacuity twin %s did not produce a violation", r.Harness)
				fmt.Printf("INCONCLUSIVE property=%s: %s\n", *prop, msg)
				problems = append(problems, msg)
				if exit == 0 {
					exit = 2
				}
			}
			continue
		}
		reportedLabels := map[string]bool{}
		reported := 0
		for _, v := range ex.violations {
			matched := false
			for _, k := range known {
				if k.matches(*prop, v) {
					matched = true
					if !seenKnown[k.What] {
						seenKnown[k.What] = true
						fmt.Printf("KNOWN-FINDING: property=%s %s\n", *prop, k.What)
					}
					break
				}
			}
			if matched {
				continue
			}
			if reported >= 3 || reportedLabels[v.Label] {
				continue
			}
			reportedLabels[v.Label] = true
			path, confirmed, out := confirmViolation(*prop, v)
			if confirmed {
				reported++
				nViol++
				fmt.Printf("VIOLATION property=%s replay=%s\n", *prop, path)
				fmt.Printf("   harness=%s label=%s kind=%s trace=%v\n", v.Harness, v.Label, v.Kind, v.Trace)
				if v.Msg != "" {
					fmt.Printf("   msg=%s\n", firstLine(v.Msg))
				}
				exit = 1
			} else {
				msg := fmt.Sprintf("counterexample for %s/%s did not reproduce natively (%s): engine or stub suspect; replay file %s", v.Harness, v.Label, firstLine(out), path)
				fmt.Printf("INCONCLUSIVE property=%s: %s\n", *prop, msg)
				problems = append(problems, msg)
				if exit == 0 {
					exit = 2
				}
			}
		}
		if ex.nInconcl > 0 || ex.unwinds > 0 || ex.timedOut {
			msg := fmt.Sprintf("harness %s: %d inconclusive paths, %d unwinding-cap hits, timed out=%v", r.Harness, ex.nInconcl, ex.unwinds, ex.timedOut)
			fmt.Printf("INCONCLUSIVE property=%s: %s\n", *prop, msg)
			problems = append(problems, msg)
			if exit == 0 {
				exit = 2
			}
		}
		for _, c := range r.Covers {
			if ex.covers[c] == 0 {
				msg := fmt.Sprintf("harness %s: cover label %q not reached (vacuity guard)", r.Harness, c)
				fmt.Printf("INCONCLUSIVE property=%s: %s\n", *prop, msg)
				problems = append(problems, msg)
				if exit == 0 {
					exit = 2
				}
			}
		}
		if ex.okPaths == 0 && len(ex.violations) == 0 {
			msg := fmt.Sprintf("harness %s: no path completed", r.Harness)
			fmt.Printf("INCONCLUSIVE property=%s: %s\n", *prop, msg)
			problems = append(problems, msg)
			if exit == 0 {
				exit = 2
			}
		}
	}
	// solver cross-check: runs with identical harness and bounds under
	// different solvers must explore the same paths with the same verdicts
	groups := map[string][]*runResult{}
	for _, rr := range results {
		pj, _ := json.Marshal(rr.run.Params)
		k := rr.run.Harness + string(pj) + rr.run.Expect
		groups[k] = append(groups[k], rr)
	}
	for _, g := range groups {
		for _, rr := range g[1:] {
			a, b := g[0].ex, rr.ex
			if a.paths != b.paths || a.okPaths != b.okPaths || a.asserts != b.asserts || len(a.violations) != len(b.violations) {
				msg := fmt.Sprintf("solver cross-check: %s explored paths=%d ok=%d asserts=%d under %q but paths=%d ok=%d asserts=%d under %q",
					rr.run.Harness, a.paths, a.okPaths, a.asserts, solverName(g[0].run.Solver), b.paths, b.okPaths, b.asserts, solverName(rr.run.Solver))
				fmt.Printf("INCONCLUSIVE property=%s: %s\n", *prop, msg)
				problems = append(problems, msg)
				if exit == 0 {
					exit = 2
				}
			}
		}
	}
	writeEvidence(*prop, *tier, seed, P, results, time.Since(t0), nViol, problems, pc)
	if exit == 0 {
		fmt.Printf("OK property=%s tier=%s (%.1fs)\n", *prop, *tier, time.Since(t0).Seconds())
	}
	return exit
}

func solverName(s string) string {
	if s == "" {
		return "z3"
	}
	return s
}

func firstLine(s string) string {
	if k := strings.IndexByte(s, '\n'); k >= 0 {
		return s[:k]
	}
	return s
}

func isFlagSet(fs *flag.FlagSet, name string) bool {
	set := false
	fs.Visit(func(f *flag.Flag) {
		if f.Name == name {
			set = true
		}
	})
	return set
}

func writeEvidence(prop, tier string, seed int, P *program, results []*runResult, wall time.Duration, nViol int, problems []string, pc propCfg) {
	var states, transitions, asserts, queries, sat, unsat, unk, steps, infeasible int64
	var solverT float64
	validated := 0
	var samples []interface{}
	var runsDesc []map[string]interface{}
	covers := map[string]int64{}
	knownHit := 0
	for _, rr := range results {
		ex := rr.ex
		states += ex.paths
		validated += ex.validated
		transitions += ex.decisions
		asserts += ex.asserts
		queries += ex.solver.queries
		sat += ex.solver.sat
		unsat += ex.solver.unsat
		unk += ex.solver.unknown
		steps += ex.steps
		infeasible += ex.infeasible
		solverT += ex.solver.time.Seconds()
		for c, n := range ex.covers {
			covers[rr.run.Harness+":"+c] += n
		}
		for _, s := range ex.samples {
			if len(samples) < 12 {
				samples = append(samples, map[string]interface{}{"harness": rr.run.Harness, "path": s})
			}
		}
		knownHit += int(ex.rawViolations)
		runsDesc = append(runsDesc, map[string]interface{}{
			"harness": rr.run.Harness, "bounds": rr.run.Params, "paths": ex.paths, "paths_ok": ex.okPaths,
			"paths_infeasible": ex.infeasible, "paths_stopped_after_violation": ex.stoppedPaths,
			"unwind_cap_hits": ex.unwinds, "inconclusive": ex.nInconcl, "violating_paths_raw": ex.rawViolations,
			"assertions_checked": ex.asserts, "solver_queries": ex.solver.queries,
			"solver_time_s": round3(ex.solver.time.Seconds()), "wall_s": round3(rr.wall.Seconds()),
			"timed_out": ex.timedOut, "expect": rr.run.Expect, "note": rr.run.Note, "solver": solverName(rr.run.Solver),
		})
	}
	if len(samples) == 0 {
		samples = append(samples, map[string]interface{}{"note": "no path completed", "problems": problems})
	}
	if states == 0 {
		states = 1
	}
	if transitions == 0 {
		transitions = 1
	}
	var funcs []string
	if P != nil {
		P.fnInfos.Range(func(k, _ interface{}) bool {
			fn := k.(*ssa.Function)
			n := fn.String()
			if !strings.Contains(n, ".vH_") && !strings.Contains(n, "gkvlite.v") && !strings.Contains(n, "gkvlite.(*v") && !strings.Contains(n, "gkvlite.(v") {
				funcs = append(funcs, n)
			}
			return true
		})
		sort.Strings(funcs)
	}
	ev := evidence{
		PropertyID: prop, Tier: tier, Seed: seed, Level: "model_checking",
		Coverage: map[string]interface{}{
			"states":                        states,
			"transitions":                   transitions,
			"traces_validated_against_impl": validated,
			"samples":                       samples,
			"exhaustive":                    len(problems) == 0,
			"rule": "states = completed symbolic paths of the real SSA (each covers every input satisfying its path condition); transitions = path decisions (solver-decided branches, concretisations, structural choices)",
			"runs":                runsDesc,
			"assertions_checked":  asserts,
			"solver":              map[string]interface{}{"queries": queries, "sat": sat, "unsat": unsat, "unknown": unk, "time_s": round3(solverT), "kind": "z3 -in (QF_BV), persistent, push/pop per path"},
			"instructions_executed": steps,
			"covers_reached":      covers,
			"functions_encoded":   funcs,
			"stubs":               stubNames(),
			"problems":            problems,
			"outside_the_claim":   pc.Outside,
			"raw_violating_paths_including_known_findings": knownHit,
		},
		Assumptions: []string{
			"go/ssa (x/tools v0.29.0) is the semantics of the source; SSA is rebuilt from /repo's working tree on every run",
			"engine instruction semantics follow x/tools go/ssa/interp; scalars are bit-vectors with Go wrap-around semantics",
			"environment stubs listed under coverage.stubs (math/rand = arbitrary value under its contract; fmt/log opaque; encoding/json = native type-driven model calling the interpreted Marshal/UnmarshalJSON)",
			"sequential consistency for goroutine interleavings; StoreFile is the harness file vFile",
			"bounds as listed per run; nothing is claimed outside them",
		},
		WallS: round3(wall.Seconds()), Violations: nViol,
	}
	dir := filepath.Join(verifDir(), "evidence")
	os.MkdirAll(dir, 0o755)
	b, _ := json.MarshalIndent(ev, "", " ")
	if err := os.WriteFile(filepath.Join(dir, prop+".json"), b, 0o644); err != nil {
		fmt.Fprintln(os.Stderr, "cannot write evidence:", err)
	}
}

func round3(f float64) float64 { return float64(int64(f*1000)) / 1000 }
