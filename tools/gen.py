#!/usr/bin/env python3
"""Generates /verif/bounds.json and /verif/MANIFEST.json from one table.

Run:  python3 tools/gen.py      (no arguments; deterministic output)
"""
import json, os, sys

HERE = os.path.dirname(os.path.dirname(os.path.abspath(__file__)))

BASE = dict(nmin=0, nmax=2, klen=1, vlen=1, vlenmin=0, store=1, cache=1, variant=0, ops=1, decode=0,
            cmps=1, preop=0, copyto=0, ncolls=1, trailing=0, secondgen=0, init=0, tailjunk=1, evictin=0, onlyop=-1, itermut=0, maxpinned=1, emptyname=0, viasnap=0, withcb=0, rootsonly=0, partial=0, reader2=0, iterfault=0, flushfault=0, maxfail=6)


def run(harness, covers=None, budget=None, expect=None, note=None, **params):
    p = dict(BASE)
    p.update(params)
    r = {"harness": harness, "params": p}
    if covers:
        r["covers"] = covers
    if budget:
        r["budget_s"] = budget
    if expect:
        r["expect"] = expect
    if note:
        r["note"] = note
    return r


PROPS = {}


def prop(pid, quick, thorough, outside, text, note, technique, design_ref):
    PROPS[pid] = dict(quick=quick, thorough=thorough, outside=outside, text=text, note=note,
                      technique=technique, design_ref=design_ref)


KERNELS = [run("C14_kernel_item", covers=["done"]),
           run("C14_kernel_ploc", covers=["nil", "empty", "nonempty"]),
           run("C14_kernel_node", covers=["done"])]

C01_COVERS = ["done", "insert-new", "overwrite-lower-priority", "overwrite-tied-priority",
              "overwrite-higher-priority", "delete-hit", "delete-miss", "get-hit", "get-miss",
              "invalid-rejected", "key-65535", "setitem-negative-priority"]

prop("C01",
     quick=[run("C01_step", covers=C01_COVERS + ["reopened"], nmax=2, cache=1),
            run("C01_step", covers=C01_COVERS, nmin=3, nmax=3, store=0, cache=0)],
     thorough=[run("C01_step", covers=C01_COVERS + ["reopened"], nmax=2, cache=1, klen=2, vlen=1, budget=1800),
               run("C01_step", covers=C01_COVERS + ["reopened"], nmin=3, nmax=3, cache=2, vlenmin=1, budget=1800),
               run("C01_step", covers=C01_COVERS, nmin=4, nmax=4, store=0, cache=0, budget=1800)],
     outside=["trees with more than 3 (quick) / 4 (thorough) items before the step", "keys longer than 2 bytes except the 65535/65536-byte boundary keys (concrete zeros but for the first byte)", "values longer than 2 bytes", "histories are covered inductively: one step from every constructed valid state; multi-step HIST runs are in C13/C02"],
     text="Bounded symbolic model checking of the real SSA: one API call with symbolic key/value/priority from every constructed valid pre-state (all tree shapes, all cache states) is compared with a sorted-map model; the solver decides every data-dependent branch, so each completed path covers all inputs satisfying its path condition.",
     note="go/ssa semantics, engine instruction semantics, z3, environment stubs (math/rand arbitrary, fmt opaque, json model), pre-state generator reachability argument (DESIGN 3.3)",
     technique="symbolic execution of go/ssa + SMT (z3, QF_BV), inductive step from arbitrary valid state",
     design_ref="DESIGN.md §4 C01")

open_note = "same trusted base as C01"

if __name__ == "__main__":
    # further properties are appended by tools/props_*.py fragments imported below
    sys.path.insert(0, os.path.join(HERE, "tools"))
    import props  # noqa: F401  (registers the remaining properties)
    props.register(prop, run, KERNELS, C01_COVERS)

    # vacuity twins: the first quick run of every property, smallest bounds,
    # with a final assert(false) that must come back violated
    for pid, p in PROPS.items():
        for tier in ("quick", "thorough"):
            first = p["quick"][0]
            tw = json.loads(json.dumps(first))
            tw["params"]["twin"] = 1
            tw["expect"] = "violation"
            tw["budget_s"] = 120
            tw.pop("covers", None)
            tw["note"] = "vacuity twin: final assert(false) must be reported"
            tw["params"]["nmax"] = min(tw["params"].get("nmax", 1), 1)
            tw["params"]["nmin"] = min(tw["params"].get("nmin", 0), tw["params"]["nmax"])
            if "k" in tw["params"]:
                tw["params"]["k"] = min(tw["params"]["k"], 2)
            p[tier] = p[tier] + [tw]

    # solver cross-check (thorough tier): the smallest quick run again under z3,
    # z3 5.1 and cvc5; the three explorations must agree path for path
    for pid, p in PROPS.items():
        small = min((r for r in p["quick"] if not r.get("expect")), key=lambda r: (r.get("budget_s", 0), len(json.dumps(r))))
        small = p["quick"][0]
        for solver in ("", "z3-new", "cvc5"):
            cc = json.loads(json.dumps(small))
            cc["solver"] = solver
            cc["budget_s"] = 1800
            cc["note"] = "solver cross-check run (%s)" % (solver or "z3")
            # keep the cross-check small
            cc["params"]["nmax"] = min(cc["params"].get("nmax", 1), 1)
            cc["params"]["nmin"] = min(cc["params"].get("nmin", 0), cc["params"]["nmax"])
            if "k" in cc["params"]:
                cc["params"]["k"] = min(cc["params"]["k"], 3)
            cc.pop("covers", None)
            p["thorough"] = p["thorough"] + [cc]

    bounds = {}
    for pid, p in sorted(PROPS.items()):
        bounds[pid] = {"quick": {"runs": p["quick"]}, "thorough": {"runs": p["thorough"]},
                       "outside_the_claim": p["outside"]}
    with open(os.path.join(HERE, "bounds.json"), "w") as f:
        json.dump(bounds, f, indent=1)

    checks = []
    for pid, p in sorted(PROPS.items()):
        checks.append({
            "property_id": pid,
            "quick_cmd": f"/verif/bin/symgo check --property {pid} --tier quick",
            "thorough_cmd": f"/verif/bin/symgo check --property {pid} --tier thorough",
            "evidence_file": f"/verif/evidence/{pid}.json",
            "replay_cmd_template": "/verif/bin/symgo replay {path}",
            "engine": "symgo",
            "level_claimed": {"category": "model_checking", "text": p["text"], "design_ref": p["design_ref"]},
            "level_note": p["note"],
            "technique": p["technique"],
        })
    na = props.NOT_APPLICABLE
    manifest = {
        "version": 1,
        "setup_cmd": "cd /verif/engine && GOFLAGS=-mod=mod GOPROXY=off GOSUMDB=off GOTOOLCHAIN=local go build -o /verif/bin/symgo ./symgo",
        "hooks": {
            "guard": "verif",
            "enable": "no source hooks: harnesses are package-gkvlite files injected through a go/packages overlay (engine) or copied next to a scratch copy of /repo (native replay); /repo is never modified by a check",
            "baseline_off_cmd": "cd /repo && go test -vet=off -count=1 -timeout 25m ./...",
            "source_commits": [],
            "add_only": True,
        },
        "engines": [{
            "name": "symgo", "path": "/verif/engine",
            "serves_properties": sorted(PROPS.keys()),
            "kind_free_text": "own symbolic executor for Go SSA (golang.org/x/tools go/ssa v0.29.0): concrete heap shape, bit-vector scalars, z3 -in as decision procedure, DFS by re-execution with decision prefixes over 16 workers, native replay of every counterexample",
        }],
        "checks": checks,
        "not_applicable": na,
        "notes": "All checks: exit 0 = property held on every explored path; exit 1 + VIOLATION line only after the counterexample replays natively; exit 2 + INCONCLUSIVE line for solver unknown/unwinding cap/unreached cover/load failure (never reported as success or as violation). Bounds per run are in bounds.json and echoed in the evidence.",
    }
    with open(os.path.join(HERE, "MANIFEST.json"), "w") as f:
        json.dump(manifest, f, indent=1)
    print("wrote bounds.json (%d properties) and MANIFEST.json" % len(PROPS))
