package main

// Front end: load /repo (current working tree) plus the harness overlay with
// go/packages, build SSA for the interpreted packages.  Nothing is cached
// between runs.

import (
	"fmt"
	"go/types"
	"os"
	"path/filepath"
	"sort"
	"strings"

	"golang.org/x/tools/go/packages"
	"golang.org/x/tools/go/ssa"
	"golang.org/x/tools/go/ssa/ssautil"
)

var interpretedStd = map[string]bool{
	"errors": true, "io": true, "bytes": true, "encoding/binary": true,
}

type loadResult struct {
	P            *program
	harnessFiles []string
	loadErrs     []string
}

func repoDir() string {
	if d := os.Getenv("VERIF_REPO"); d != "" {
		return d
	}
	return "/repo"
}

func verifDir() string {
	if d := os.Getenv("VERIF_DIR"); d != "" {
		return d
	}
	return "/verif"
}

func harnessOverlay(repo string) (map[string][]byte, []string, error) {
	files, err := filepath.Glob(filepath.Join(verifDir(), "harness", "*.go"))
	if err != nil {
		return nil, nil, err
	}
	sort.Strings(files)
	ov := map[string][]byte{}
	var names []string
	for _, f := range files {
		base := filepath.Base(f)
		if strings.HasSuffix(base, "_native.go") || strings.HasSuffix(base, "_test.go") {
			continue
		}
		b, err := os.ReadFile(f)
		if err != nil {
			return nil, nil, err
		}
		ov[filepath.Join(repo, "zz_verif_"+base)] = b
		names = append(names, base)
	}
	return ov, names, nil
}

func loadProgram() (*loadResult, error) {
	repo := repoDir()
	ov, names, err := harnessOverlay(repo)
	if err != nil {
		return nil, err
	}
	cfg := &packages.Config{
		Mode:    packages.LoadAllSyntax,
		Dir:     repo,
		Overlay: ov,
		Env:     append(os.Environ(), "GOFLAGS=-mod=mod", "GOPROXY=off", "GOSUMDB=off", "GOTOOLCHAIN=local", "CGO_ENABLED=0"),
	}
	pkgs, err := packages.Load(cfg, ".")
	if err != nil {
		return nil, fmt.Errorf("packages.Load: %v", err)
	}
	res := &loadResult{harnessFiles: names}
	packages.Visit(pkgs, nil, func(p *packages.Package) {
		for _, e := range p.Errors {
			res.loadErrs = append(res.loadErrs, e.Error())
		}
	})
	if len(res.loadErrs) > 0 {
		return res, fmt.Errorf("type errors while loading %s with the harness overlay", repo)
	}
	prog, spkgs := ssautil.AllPackages(pkgs, ssa.InstantiateGenerics|ssa.SanityCheckFunctions)
	if len(spkgs) != 1 || spkgs[0] == nil {
		return res, fmt.Errorf("expected one root package")
	}
	P := &program{prog: prog, pkg: spkgs[0], interpPkgs: map[*ssa.Package]bool{}, params: map[string]int{}}
	P.interpPkgs[P.pkg] = true
	P.pkg.Build()
	for _, sp := range prog.AllPackages() {
		if interpretedStd[sp.Pkg.Path()] {
			sp.Build()
			P.interpPkgs[sp] = true
		}
	}
	rt := prog.ImportedPackage("runtime")
	if rt == nil {
		return res, fmt.Errorf("runtime package not loaded")
	}
	P.runtimeErrorString = rt.Type("errorString").Object().Type()
	P.sizes = types.SizesFor("gc", "amd64")
	P.stepBudget = 3_000_000
	P.concretizeCap = 600
	P.solverKind = "z3"
	P.solverTimeoutMs = 30000
	res.P = P
	return res, nil
}

// initOnce: per worker, allocate globals and run package initialisers of the
// interpreted packages once.
func (i *interpreter) initOnce() {
	for sp := range i.P.interpPkgs {
		i.initPackage(sp)
	}
	i.path = &pathState{covers: map[string]bool{}}
	i.setModel(Model{})
	i.mutexes = map[*value]*mutexState{}
	i.sched = newScheduler(i)
	i.inInit = true
	defer func() { i.inInit = false }()
	i.sched.runMain(func(fr *frame) {
		call(i, fr, 0, i.P.pkg.Func("init"), nil)
	})
}

// resetGlobals: per path, re-zero the globals of the package under test and
// re-run its initialiser (free lists, magic markers ... start fresh).
func (i *interpreter) resetGlobals() {
	i.initPackage(i.P.pkg)
	i.inInit = true
	defer func() { i.inInit = false }()
	i.path.steps = 0
	g := &gor{id: 0, wake: make(chan struct{}, 1)}
	old := i.sched
	i.sched = &scheduler{i: i, gs: []*gor{g}, cur: g}
	root := &frame{i: i, g: g}
	call(i, root, 0, i.P.pkg.Func("init"), nil)
	i.sched = old
	i.path.steps = 0
}
