package gkvlite

// Harness intrinsics.  These declarations have no bodies: the symbolic
// executor (/verif/engine) intercepts calls to them.  For native replay the
// file vnondet_native.go provides ordinary implementations instead.

func vInt32(name string) int32
func vInt64(name string) int64
func vInt(name string) int
func vUint8(name string) uint8
func vUint16(name string) uint16
func vUint32(name string) uint32
func vUint64(name string) uint64
func vBool(name string) bool
func vBytes(name string, n int) []byte
func vChoose(name string, lo, hi int) int
func vAssume(c bool)
func vAssert(label string, c bool)
func vCover(label string)
func vTrace(s string)
func vTraceInt(s string, n int)
func vParam(name string) int
func vSymbolic() bool
func vAnd(a, b bool) bool
func vOr(a, b bool) bool
func vNot(a bool) bool
func vIteInt(c bool, a, b int) int
func vIteInt32(c bool, a, b int32) int32
func vIteInt64(c bool, a, b int64) int64
func vIteUint8(c bool, a, b uint8) uint8
func vIteUint64(c bool, a, b uint64) uint64
func vIteBool(c bool, a, b bool) bool
func vBytesEq(a, b []byte) bool
func vBytesCmp(a, b []byte) int
func vConcInt(x int) int
func vYield(what string)
func vLiveGoroutines() int
func vBlockUntil(p *bool)
func vPreemptions() int
func vStop(why string)
func vYieldAll()
func vInconclusive(why string)
