package gkvlite

// STEP harnesses sharing vBuildPre / vStepOp: C13 (invariants), C06 (range
// visits), C19 (lazy loading), C09 (append-only / read paths never write).

import "bytes"

// ------------------------------------------------------------------ C13

// vCanonicalDepth: with distinct priorities, item i's depth is the number of
// j != i whose priority is the maximum over all keys between i and j
// (inclusive).  Computed from keys' order and priorities only, branch-free.
func vCanonicalDepth(m *vModel, i int) uint64 {
	var d uint64
	for j := range m.ents {
		if j == i {
			continue
		}
		lo, hi := i, j
		if j < i {
			lo, hi = j, i
		}
		anc := true
		for k := lo; k <= hi; k++ {
			if k != j {
				anc = vAnd(anc, m.ents[j].prio > m.ents[k].prio)
			}
		}
		d += vIteUint64(anc, 1, 0)
	}
	return d
}

func vH_C13_step() {
	cfg := vCfgFromParams()
	if vChoose("cmp", 0, vParam("cmps")-1) == 1 {
		cfg.cmp = vReverseCompare // the tree is a search tree under the collection's OWN comparator
	}
	pre := vBuildPre(cfg)
	cfg = pre.cfg
	nops := vParam("ops")
	for k := 0; k < nops; k++ {
		op := vChoose("op", 0, 5)
		switch op {
		case 0:
			vStepOp(pre, vOpSetItem)
		case 1:
			vStepOp(pre, vOpDelete)
		case 2:
			if cfg.variant >= 1 {
				return // Set draws an arbitrary priority: may lower or tie
			}
			vStepOp(pre, vOpSet)
		case 3:
			vStepOp(pre, vOpEvict)
		case 4:
			if !vStepOp(pre, vOpFlush) || pre.f == nil {
				return
			}
		case 5:
			if !vStepOp(pre, vOpReopen) {
				return
			}
		}
	}
	vInvariant("inv", pre.c, cfg.variant >= 1)
	if cfg.variant == 2 {
		seen, err := vAscendAll(pre.c, false)
		vAssert("canon:visit", vAnd(err == nil, len(seen) == len(pre.m.ents)))
		if len(seen) == len(pre.m.ents) {
			for i := range seen {
				vAssert("canon:depth", seen[i].depth == vCanonicalDepth(pre.m, i))
			}
		}
		// the depth reported by a partial visit is the same true depth
		if vParam("partial") == 0 {
			vCover("canonical-checked")
			vCover("done")
			return
		}
		tgt := vKeyArg("partial-target", cfg.klen)
		idx := 0
		err = pre.c.VisitItemsAscendEx(tgt, false, func(it *Item, d uint64) bool {
			for idx < len(pre.m.ents) && !vBytesEq(pre.m.ents[idx].key, it.Key) {
				idx++
			}
			if idx < len(pre.m.ents) {
				vAssert("canon:depth-partial-visit", d == vCanonicalDepth(pre.m, idx))
			}
			return true
		})
		vAssert("canon:partial-visit-noerr", err == nil)
		vCover("canonical-checked")
	}
	if pre.f != nil && vParam("decode") == 1 {
		// persisted form: aggregates exact, children before parents
		err := pre.s.Flush()
		vAssert("flush-ok", err == nil)
		dec := vDecode(pre.f.data, int64(len(pre.f.data)))
		vCheckDecoded("persisted", dec, []string{cfg.name}, []*vModel{pre.m})
		vCover("decoded")
	}
	vCover("done")
}

// ------------------------------------------------------------------ C06

func vLastByteFirst(a, b []byte) int {
	// a total order different from bytes.Compare: compare reversed strings
	ra := make([]byte, len(a))
	for i := range a {
		ra[i] = a[len(a)-1-i]
	}
	rb := make([]byte, len(b))
	for i := range b {
		rb[i] = b[len(b)-1-i]
	}
	return bytes.Compare(ra, rb)
}

func vH_C06_step() {
	cfg := vCfgFromParams()
	switch vChoose("cmp", 0, vParam("cmps")-1) {
	case 1:
		cfg.cmp = vReverseCompare
	case 2:
		cfg.cmp = vLastByteFirst
	}
	pre := vBuildPre(cfg)
	cfg = pre.cfg
	c, m := pre.c, pre.m
	var target []byte
	tk := vChoose("target-kind", 0, 2)
	switch tk {
	case 1:
		target = []byte{}
	case 2:
		target = vKeyArg("target", cfg.klen)
	}
	withValue := vChoose("withValue", 0, 1) == 1
	descend := vChoose("descend", 0, 1) == 1
	ex := vChoose("ex", 0, 1) == 1
	stopAt := vChoose("stop-at", 0, cfg.n) // deliver this many, then return false (n = never stop early... n+? see below)
	var got []vSeen
	evictIn := vChoose("evict-in-visitor", 0, vParam("evictin")) == 1
	visEx := func(i *Item, depth uint64) bool {
		got = append(got, vSeen{i.Key, i.Val, i.Priority, depth})
		if evictIn && len(got) == 1 {
			c.EvictSomeItems() // the visitor (or anyone) may evict while the visit is in flight
		}
		return len(got) <= stopAt
	}
	vis := func(i *Item) bool { return visEx(i, 0) }
	if vChoose("via-snapshot", 0, vParam("viasnap")) == 1 {
		vTrace("via-snapshot")
		c = pre.s.Snapshot().GetCollection(cfg.name)
		vAssert("snapshot-coll", c != nil)
	}
	var err error
	switch {
	case descend && ex:
		vTrace("VisitItemsDescendEx")
		err = c.VisitItemsDescendEx(target, withValue, visEx)
	case descend:
		vTrace("VisitItemsDescend")
		err = c.VisitItemsDescend(target, withValue, vis)
	case ex:
		vTrace("VisitItemsAscendEx")
		err = c.VisitItemsAscendEx(target, withValue, visEx)
	default:
		vTrace("VisitItemsAscend")
		err = c.VisitItemsAscend(target, withValue, vis)
	}
	vAssert("visit-noerr", err == nil)
	// expected: filter, order, cut
	var want []int
	if descend {
		for i := len(m.ents) - 1; i >= 0; i-- {
			if cfg.cmp(m.ents[i].key, target) < 0 {
				want = append(want, i)
			}
		}
	} else {
		for i := 0; i < len(m.ents); i++ {
			if cfg.cmp(m.ents[i].key, target) >= 0 {
				want = append(want, i)
			}
		}
	}
	if len(want) > stopAt+1 {
		want = want[:stopAt+1]
		vCover("stopped-early")
	}
	vAssert("visit-count", len(got) == len(want))
	if len(got) != len(want) {
		return
	}
	for k, i := range want {
		vAssert("visit-key", vBytesEq(got[k].key, m.ents[i].key))
		vAssert("visit-prio", got[k].prio == m.ents[i].prio)
		if withValue {
			vAssert("visit-val", vAnd(got[k].val != nil, vBytesEq(got[k].val, m.ents[i].val)))
		}
		if ex {
			vAssert("visit-depth", got[k].depth == pre.depth[i])
		}
	}
	if len(want) > 0 {
		vCover("delivered")
	} else {
		vCover("empty-range")
	}
	vCover("done")
}

// ------------------------------------------------------------------ C19

func vReadsAvoid(label string, f *vFile, dec *vDecoded) {
	for _, rd := range f.reads {
		if rd.n == 0 {
			continue
		}
		for _, dc := range dec.colls {
			for _, it := range dc.items {
				vl := int64(len(it.val))
				if vl == 0 {
					continue
				}
				// [rd.off, rd.off+n) ∩ [valOff, valOff+vl) must be empty
				vAssert(label, vOr(rd.off+int64(rd.n) <= it.valOff, rd.off >= it.valOff+vl))
			}
		}
	}
}

func vH_C19_open() {
	cfg := vCfgFromParams()
	cfg.file, cfg.cache = true, 2
	pre := vBuildPre(cfg)
	cfg = pre.cfg
	err := pre.s.Flush()
	vAssert("flush-ok", err == nil)
	f := pre.f
	dec := vDecode(f.data, int64(len(f.data)))
	vAssert("decodes", dec.ok)
	f.resetLogs()
	s2, err := NewStore(f)
	vAssert("open-ok", vAnd(err == nil, s2 != nil))
	// (how many reads the record takes is not prescribed; they must all fall inside it)
	for _, rd := range f.reads {
		vAssert("open-reads-only-root-record", vAnd(rd.off >= dec.rootStart, rd.off+int64(rd.n) <= dec.rootEnd))
	}
	vAssert("open-no-writes", vAnd(len(f.writes) == 0, len(f.truncs) == 0))
	if s2 != nil {
		c2 := s2.GetCollection(cfg.name)
		vAssert("open-coll", c2 != nil)
		if c2 != nil {
			vAssert("open-nothing-loaded", vAnd(c2.root.root.node == nil, cfg.n == 0 || c2.root.root.loc != nil))
		}
	}
	vCover("done")
}

func vH_C19_keyonly() {
	cfg := vCfgFromParams()
	cfg.file, cfg.cache = true, 2
	var cbs StoreCallbacks
	if vChoose("with-neutral-callbacks", 0, vParam("withcb")) == 1 {
		// behaviourally neutral callbacks must not make key-only paths read values
		vTrace("neutral-callbacks")
		cbs = vNeutralCallbacks(cbValLength | cbAlloc | cbAfterRead | cbBeforeWrite)
		cfg.cb = &cbs
	}
	pre := vBuildPre(cfg)
	cfg = pre.cfg
	err := pre.s.Flush()
	vAssert("flush-ok", err == nil)
	f := pre.f
	dec := vDecode(f.data, int64(len(f.data)))
	vAssert("decodes", dec.ok)
	if vChoose("reopen", 0, 1) == 1 {
		s2, err := NewStoreEx(f, cbs)
		vAssert("open-ok", vAnd(err == nil, s2 != nil))
		pre.s, pre.c = s2, s2.GetCollection(cfg.name)
	}
	c := pre.c
	// optional un-monitored mutation first: creates dirty path copies over
	// persisted (possibly evicted) items
	switch vChoose("pre-op", 0, 2*vParam("preop")) {
	case 1:
		vStepOp(pre, vOpSetItem)
	case 2:
		vStepOp(pre, vOpDelete)
	}
	f.resetLogs()
	key := vKeyArg("arg", cfg.klen)
	kop := vParam("onlyop")
	if kop < 0 {
		kop = vChoose("keyonly-op", 0, 9)
	}
	switch kop {
	case 0:
		vTrace("GetItem(false)")
		_, err = c.GetItem(key, false)
	case 1:
		vTrace("MinItem(false)")
		_, err = c.MinItem(false)
	case 2:
		vTrace("MaxItem(false)")
		_, err = c.MaxItem(false)
	case 3:
		vTrace("VisitItemsAscend(false)")
		err = c.VisitItemsAscend(key, false, func(i *Item) bool { return true })
	case 4:
		vTrace("VisitItemsDescend(false)")
		err = c.VisitItemsDescend(key, false, func(i *Item) bool { return true })
	case 5:
		vTrace("Exist")
		c.Exist(key)
	case 6:
		vTrace("Len")
		if len(pre.m.ents) == 0 {
			return // Len on an empty collection: see C16
		}
		_, err = c.Len()
	case 7:
		vTrace("Set")
		err = c.Set(key, vBytes("nv", 1))
	case 8:
		vTrace("Delete")
		_, err = c.Delete(key)
	case 9:
		vTrace("VisitItemsAscendEx(false)")
		err = c.VisitItemsAscendEx(key, false, func(i *Item, d uint64) bool { return true })
	}
	vAssert("keyonly-noerr", err == nil)
	vReadsAvoid("keyonly-read-touches-value", f, dec)
	if len(f.reads) > 0 {
		vCover("some-reads")
	}
	vCover("done")
}

// ------------------------------------------------------------------ C09

func vH_C09_readonly() {
	cfg := vCfgFromParams()
	cfg.file = true
	if cfg.cache == 0 {
		cfg.cache = 1
	}
	pre := vBuildPre(cfg)
	cfg = pre.cfg
	f, c, s := pre.f, pre.c, pre.s
	before := append([]byte(nil), f.data...)
	if vChoose("flushed-first", 0, 1) == 1 {
		vAssert("flush-ok", s.Flush() == nil)
		before = append([]byte(nil), f.data...)
		if vChoose("reopen", 0, 1) == 1 {
			// optionally a torn tail behind the last root record
			if nj := vChoose("tail-junk", 0, vParam("tailjunk")); nj > 0 {
				f.data = append(f.data, vBytes("tail", nj)...)
				before = append([]byte(nil), f.data...)
				vCover("torn-tail")
			}
			f.resetLogs()
			s2, err := NewStore(f)
			vTrace("NewStore")
			vAssert("open-ok", vAnd(err == nil, s2 != nil))
			vAssert("open-writes-nothing", vAnd(len(f.writes) == 0, len(f.truncs) == 0))
			s, c = s2, s2.GetCollection(cfg.name)
		}
	}
	f.resetLogs()
	key := vKeyArg("arg", cfg.klen)
	wv := vChoose("withValue", 0, 1) == 1
	switch vChoose("ro-op", 0, 12) {
	case 0:
		vTrace("GetItem")
		c.GetItem(key, wv)
	case 1:
		vTrace("Get")
		c.Get(key)
	case 2:
		vTrace("Exist")
		c.Exist(key)
	case 3:
		vTrace("MinItem")
		c.MinItem(wv)
	case 4:
		vTrace("MaxItem")
		c.MaxItem(wv)
	case 5:
		vTrace("VisitItemsAscend")
		c.VisitItemsAscend(key, wv, func(i *Item) bool { return true })
	case 6:
		vTrace("VisitItemsDescend")
		c.VisitItemsDescend(key, wv, func(i *Item) bool { return true })
	case 7:
		vTrace("GetTotals")
		c.GetTotals()
	case 8:
		vTrace("EvictSomeItems")
		c.EvictSomeItems()
	case 9:
		vTrace("Snapshot+read")
		sn := s.Snapshot()
		sc := sn.GetCollection(cfg.name)
		sc.GetItem(key, wv)
		sc.VisitItemsAscend(nil, wv, func(i *Item) bool { return true })
		vAssert("snapshot-refuses-flush", sn.Flush() != nil)
		vAssert("snapshot-refuses-write", sc.Write() != nil)
		vAssert("snapshot-refuses-set", sc.Set(key, []byte{1}) != nil)
		_, derr := sc.Delete(key)
		vAssert("snapshot-refuses-delete", derr != nil)
		sn.Close()
	case 10:
		vTrace("CopyTo(source)")
		dst := &vFile{}
		_, err := s.CopyTo(dst, vChoose("flushEvery", 0, 1))
		vAssert("copyto-ok", err == nil)
	case 11:
		vTrace("Names+Stats")
		s.GetCollectionNames()
		s.Stats(map[string]uint64{})
		c.AllocStats()
	case 12:
		vTrace("Len")
		if len(pre.m.ents) == 0 {
			return
		}
		c.Len()
	}
	vAssert("readonly-op-wrote", len(f.writes) == 0)
	vAssert("readonly-op-truncated", len(f.truncs) == 0)
	vAssert("file-length-unchanged", len(f.data) == len(before))
	vCover("done")
}

// C09 append-only: every write of Flush starts at or beyond the end of the
// last durable root record; FlushRevert truncates only to a root end or 0.
func vH_C09_append() {
	cfg := vCfgFromParams()
	cfg.file = true
	if cfg.cache == 0 {
		cfg.cache = 1
	}
	pre := vBuildPre(cfg)
	cfg = pre.cfg
	f, s := pre.f, pre.s
	var rootEnds []int64
	durable := int64(0)
	steps := vParam("ops")
	for k := 0; k < steps; k++ {
		f.resetLogs()
		snap := append([]byte(nil), f.data[:durable]...)
		switch vChoose("op", 0, 3) {
		case 0:
			vStepOp(pre, vOpSetItem)
			vAssert("mutation-wrote", vAnd(len(f.writes) == 0, len(f.truncs) == 0))
		case 1:
			vStepOp(pre, vOpDelete)
			vAssert("mutation-wrote", vAnd(len(f.writes) == 0, len(f.truncs) == 0))
		case 2:
			vTrace("Flush")
			vFlushMaybeFaulty(s, f)
			for _, w := range f.writes {
				vAssert("flush-write-below-durable-root", w.off >= durable)
			}
			vAssert("flush-truncated", len(f.truncs) == 0)
			durable = int64(len(f.data))
			rootEnds = append(rootEnds, durable)
			vCover("flushed")
		case 3:
			vTrace("Write")
			vAssert("write-ok", pre.c.Write() == nil)
			for _, w := range f.writes {
				vAssert("write-below-durable-root", w.off >= durable)
			}
		}
		// no byte below the durable end was modified
		vAssert("durable-prefix-length", int64(len(f.data)) >= int64(len(snap)))
		ok := true
		for i := range snap {
			ok = vAnd(ok, f.data[i] == snap[i])
		}
		vAssert("durable-prefix-unchanged", ok)
	}
	vCover("done")
}

// ------------------------------------------------------------------ C14 (format after Flush / CopyTo)

func vH_C14_fmt() {
	cfg := vCfgFromParams()
	cfg.file = true
	if cfg.cache == 0 {
		cfg.cache = 1
	}
	pre := vBuildPre(cfg)
	cfg = pre.cfg
	viaCopy := vChoose("via-copyto", 0, vParam("copyto")) == 1
	if !viaCopy {
		switch vChoose("pre-op", 0, 2) {
		case 1:
			vStepOp(pre, vOpSetItem)
		case 2:
			vStepOp(pre, vOpDelete)
		}
	}
	if viaCopy {
		vTrace("CopyTo")
		dst := &vFile{}
		_, err := pre.s.CopyTo(dst, vChoose("flushEvery", 1, 2))
		vAssert("copyto-ok", err == nil)
		dec := vDecode(dst.data, int64(len(dst.data)))
		vCheckDecoded("copy", dec, []string{cfg.name}, []*vModel{pre.m})
		vCover("copied")
	} else {
		vTrace("Flush")
		vFlushMaybeFaulty(pre.s, pre.f)
		f := pre.f
		dec := vDecode(f.data, int64(len(f.data)))
		vCheckDecoded("flushed", dec, []string{cfg.name}, []*vModel{pre.m})
		// a second, empty, flush appends another root record that decodes the same
		vAssert("flush2-ok", pre.s.Flush() == nil)
		dec2 := vDecode(f.data, int64(len(f.data)))
		vCheckDecoded("flushed-again", dec2, []string{cfg.name}, []*vModel{pre.m})
	}
	vCover("done")
}

// C19 under concurrency: two key-only readers race on the same unloaded item.
func vH_C19_race() {
	cfg := vCfgFromParams()
	cfg.file, cfg.cache = true, 2
	pre := vBuildPre(cfg)
	cfg = pre.cfg
	vAssert("flush-ok", pre.s.Flush() == nil)
	f := pre.f
	dec := vDecode(f.data, int64(len(f.data)))
	vAssert("decodes", dec.ok)
	s2, err := NewStore(f)
	vAssert("open-ok", vAnd(err == nil, s2 != nil))
	c := s2.GetCollection(cfg.name)
	if len(pre.m.ents) == 0 {
		return
	}
	key := pre.m.ents[vChoose("which-key", 0, len(pre.m.ents)-1)].key
	f.resetLogs()
	f.yield = true
	var d1, d2 bool
	go func() {
		_, err := c.GetItem(key, false)
		vAssert("reader1-noerr", err == nil)
		d1 = true
	}()
	go func() {
		if vChoose("reader2-op", 0, 1) == 0 {
			_, err := c.GetItem(key, false)
			vAssert("reader2-noerr", err == nil)
		} else {
			_, err := c.MinItem(false)
			vAssert("reader2-noerr", err == nil)
		}
		d2 = true
	}()
	vBlockUntil(&d1)
	vBlockUntil(&d2)
	f.yield = false
	vReadsAvoid("concurrent-keyonly-read-touches-value", f, dec)
	if vPreemptions() > 0 {
		vCover("preempted")
	}
	vCover("done")
}

// vFlushMaybeFaulty: Flush with, optionally, one transient failure of the k-th
// file call; an error must be followed by a successful retry.  Returns after a
// Flush that returned nil.
func vFlushMaybeFaulty(s *Store, f *vFile) {
	if vParam("flushfault") == 1 {
		if k := vChoose("flush-fail-at", 0, vParam("maxfail")); k > 0 {
			f.failAt = k
			if vChoose("torn", 0, 1) == 1 {
				f.torn = true
				f.tornLen = vInt("torn-len")
				vAssume(f.tornLen >= 0)
				vAssume(f.tornLen <= 64)
			}
			err := s.Flush()
			f.failAt, f.torn = 0, false
			if err != nil {
				vTrace("Flush failed, retried")
				vAssert("retried-flush-ok", s.Flush() == nil)
				vCover("flush-retried")
			}
			return
		}
	}
	vAssert("flush-ok", s.Flush() == nil)
}
