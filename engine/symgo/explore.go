package main

// Path enumeration: depth-first by re-execution with a decision prefix.
// A work item is (decision prefix, model witnessing its feasibility).
// Workers pop items from a shared LIFO; every new two-sided decision pushes
// the untaken side.  One interpreter + one solver process per worker.

import (
	"fmt"
	"go/token"
	"os"
	"runtime"
	"sort"
	"strings"
	"sync"
	"time"

	"golang.org/x/tools/go/ssa"
)

type decKind uint8

const (
	dBranch decKind = iota // val: 0/1
	dConc                  // concretisation: k value, val 1 = equal, 0 = not equal
	dChoose                // vChoose / scheduler: val = chosen value
)

type decision struct {
	kind decKind
	val  int64
	k    uint64
}

type workItem struct {
	prefix []decision
	model  Model
}

type nondetRec struct {
	Name string `json:"name"`
	Kind string `json:"kind"`
	W    uint8  `json:"w"`
	term *Term
	Val  uint64 `json:"val"`
}

type pathState struct {
	prefix       []decision
	decisions    []decision
	pc           []*Term
	sent         int // pc terms already asserted in the solver scope
	model        Model
	ev           *evaluator
	nondets      []nondetRec
	chooses      []int64 // values returned by vChoose in order (for replay)
	covers       map[string]bool
	trace        []string
	steps        int64
	concRun      int
	lossyStrings int
	violations   []violation
	queries      int
	aborted      bool
	replay       *replayInput
	goroutines   int
	mapOrderDecided, mapRev bool
}

// replayInput drives an engine-concrete replay of a recorded counterexample.
type replayInput struct {
	nondets []uint64
	chooses []int64
	next    int
}

type violation struct {
	Harness  string            `json:"harness"`
	Label    string            `json:"label"`
	Kind     string            `json:"kind"` // assert | panic | deadlock | unwind
	Msg      string            `json:"msg,omitempty"`
	Trace    []string          `json:"trace"`
	Nondets  []nondetRec       `json:"nondets"`
	Chooses  []int64           `json:"chooses"`
	Params   map[string]int    `json:"params"`
	Decision string            `json:"decisions"`
	Extra    map[string]string `json:"extra,omitempty"`
	Goroutines int             `json:"goroutines_spawned"`
}

func (p *pathState) addPC(t *Term) {
	if t.op == opTrue {
		return
	}
	p.pc = append(p.pc, t)
}

func (i *interpreter) syncPC() {
	p := i.path
	for p.sent < len(p.pc) {
		i.sol.assert(p.pc[p.sent])
		p.sent++
	}
}

// checkSat: is PC ∧ extra satisfiable?
func (i *interpreter) checkSat(extra *Term, wantModel bool) (satResult, Model) {
	i.syncPC()
	i.path.queries++
	res, m, err := i.sol.check(extra, wantModel)
	if err != nil {
		// solver desynchronised: restart it and give up on this path
		i.sol.close()
		if e2 := i.sol.start(); e2 != nil {
			fmt.Fprintln(os.Stderr, "FATAL: cannot restart solver:", e2)
			os.Exit(3)
		}
		i.path.sent = 0
		panic(engineAbort{abInconclusive, "solver error: " + err.Error()})
	}
	return res, m
}

func (i *interpreter) setModel(m Model) {
	i.path.model = m
	i.path.ev = newEvaluator(m)
}

func (i *interpreter) prefixCopy(extra decision) []decision {
	p := i.path
	n := make([]decision, len(p.decisions)+1)
	copy(n, p.decisions)
	n[len(p.decisions)] = extra
	return n
}

// branchTerm decides a boolean term: follows the prefix, or takes the side
// the current model satisfies and queues the other side if feasible.
func (i *interpreter) branchTerm(c *Term) bool {
	switch c.op {
	case opTrue:
		return true
	case opFalse:
		return false
	}
	p := i.path
	p.concRun = 0
	n := len(p.decisions)
	if n < len(p.prefix) {
		d := p.prefix[n]
		if d.kind != dBranch {
			panic(fmt.Sprintf("engine: non-deterministic re-execution (expected branch, prefix has kind %d at %d)", d.kind, n))
		}
		p.decisions = append(p.decisions, d)
		if d.val != 0 {
			p.addPC(c)
		} else {
			p.addPC(i.tt.Not(c))
		}
		return d.val != 0
	}
	side := p.ev.eval(c) != 0
	other := c
	if side {
		other = i.tt.Not(c)
	}
	res, m := i.checkSat(other, true)
	switch res {
	case resSat:
		i.ex.push(workItem{i.prefixCopy(decision{kind: dBranch, val: int64(b2u(!side))}), m})
	case resUnknown:
		i.ex.noteInconclusive("solver unknown on branch feasibility at " + i.where())
	}
	p.decisions = append(p.decisions, decision{kind: dBranch, val: int64(b2u(side))})
	if side {
		p.addPC(c)
	} else {
		p.addPC(i.tt.Not(c))
	}
	return side
}

// concretizeTerm enumerates the feasible values of a bit-vector term.
func (i *interpreter) concretizeTerm(x *Term) uint64 {
	if x.op == opConst {
		return x.k
	}
	p := i.path
	for {
		n := len(p.decisions)
		if n < len(p.prefix) {
			d := p.prefix[n]
			if d.kind != dConc {
				panic(fmt.Sprintf("engine: non-deterministic re-execution (expected concretisation at %d)", n))
			}
			p.decisions = append(p.decisions, d)
			eq := i.tt.Eq(x, i.tt.Const(x.w, d.k))
			if d.val != 0 {
				p.addPC(eq)
				return d.k
			}
			p.addPC(i.tt.Not(eq))
			continue
		}
		p.concRun++
		if p.concRun > i.P.concretizeCap {
			panic(engineAbort{abInconclusive, fmt.Sprintf("concretisation cap %d exceeded at %s", i.P.concretizeCap, i.where())})
		}
		v := p.ev.eval(x)
		eq := i.tt.Eq(x, i.tt.Const(x.w, v))
		res, m := i.checkSat(i.tt.Not(eq), true)
		switch res {
		case resSat:
			i.ex.push(workItem{i.prefixCopy(decision{kind: dConc, val: 0, k: v}), m})
		case resUnknown:
			i.ex.noteInconclusive("solver unknown on concretisation at " + i.where())
		}
		p.decisions = append(p.decisions, decision{kind: dConc, val: 1, k: v})
		p.addPC(eq)
		return v
	}
}

// choose enumerates lo..hi without the solver (structural nondeterminism).
func (i *interpreter) choose(lo, hi int64) int64 {
	p := i.path
	p.concRun = 0
	if hi < lo {
		panic(engineAbort{abInfeasible, "empty choice"})
	}
	if r := p.replay; r != nil {
		v := lo
		if r.next < len(r.chooses) {
			v = r.chooses[r.next]
		}
		r.next++
		if v < lo || v > hi {
			panic(engineAbort{abInconclusive, "engine replay diverged: recorded choice out of range"})
		}
		p.chooses = append(p.chooses, v)
		p.decisions = append(p.decisions, decision{kind: dChoose, val: v})
		return v
	}
	n := len(p.decisions)
	if n < len(p.prefix) {
		d := p.prefix[n]
		if d.kind != dChoose {
			panic(fmt.Sprintf("engine: non-deterministic re-execution (expected choice at %d)", n))
		}
		p.decisions = append(p.decisions, d)
		p.chooses = append(p.chooses, d.val)
		return d.val
	}
	for v := hi; v > lo; v-- {
		i.ex.push(workItem{i.prefixCopy(decision{kind: dChoose, val: v}), p.model})
	}
	p.decisions = append(p.decisions, decision{kind: dChoose, val: lo})
	p.chooses = append(p.chooses, lo)
	return lo
}

func (i *interpreter) assume(c *Term) {
	p := i.path
	switch c.op {
	case opTrue:
		return
	case opFalse:
		panic(engineAbort{abInfeasible, "assume(false)"})
	}
	if len(p.decisions) < len(p.prefix) {
		p.addPC(c) // feasibility of the prefix is already established
		return
	}
	if p.ev.eval(c) != 0 {
		p.addPC(c)
		return
	}
	res, m := i.checkSat(c, true)
	switch res {
	case resSat:
		p.addPC(c)
		i.setModel(m)
	case resUnsat:
		panic(engineAbort{abInfeasible, "assumption contradicts path"})
	default:
		panic(engineAbort{abInconclusive, "solver unknown on assumption at " + i.where()})
	}
}

func (i *interpreter) assertTerm(label string, c *Term) {
	p := i.path
	p.concRun = 0
	i.ex.noteAssert()
	if c.op == opTrue {
		return
	}
	if c.op == opFalse {
		i.recordViolation("assert", label, "", p.model)
		panic(engineAbort{abStop, "assertion failed on all inputs of this path"})
	}
	// quick: does the current model already violate it?
	var res satResult
	var m Model
	if len(p.decisions) >= len(p.prefix) && p.ev.eval(c) == 0 {
		res, m = resSat, p.model
	} else {
		res, m = i.checkSat(i.tt.Not(c), true)
	}
	switch res {
	case resUnsat:
		return
	case resSat:
		i.recordViolation("assert", label, "", m)
		// continue on the inputs that satisfy the assertion, if any
		i.assumeAfterViolation(c)
	default:
		i.ex.noteInconclusive("solver unknown on assertion " + label)
		i.assumeAfterViolation(c)
	}
}

func (i *interpreter) assumeAfterViolation(c *Term) {
	res, m := i.checkSat(c, true)
	if res != resSat {
		panic(engineAbort{abStop, "no inputs left after failed assertion"})
	}
	i.path.addPC(c)
	if len(i.path.decisions) >= len(i.path.prefix) {
		i.setModel(m)
	}
}

func (i *interpreter) where() string {
	return i.P.prog.Fset.Position(i.curPos).String()
}

func (i *interpreter) recordViolation(kind, label, msg string, m Model) {
	p := i.path
	p.violations = append(p.violations, i.snapshotInputs(kind, label, msg, m))
}

// snapshotInputs captures the path's inputs under model m as a replayable record.
func (i *interpreter) snapshotInputs(kind, label, msg string, m Model) violation {
	p := i.path
	ev := newEvaluator(m)
	nd := make([]nondetRec, len(p.nondets))
	for k, r := range p.nondets {
		nd[k] = r
		nd[k].Val = ev.eval(r.term)
	}
	var ds strings.Builder
	for _, d := range p.decisions {
		switch d.kind {
		case dBranch:
			fmt.Fprintf(&ds, "%d", d.val)
		case dConc:
			fmt.Fprintf(&ds, "[%d%s]", d.k, map[int64]string{0: "!", 1: ""}[d.val])
		case dChoose:
			fmt.Fprintf(&ds, "<%d>", d.val)
		}
	}
	v := violation{
		Goroutines: p.goroutines,
		Harness: i.ex.harness, Label: label, Kind: kind, Msg: msg,
		Trace: append([]string(nil), p.trace...), Nondets: nd,
		Chooses: append([]int64(nil), p.chooses...), Params: i.P.params,
		Decision: ds.String(),
	}
	return v
}

// ------------------------------------------------------------------ explorer

type pathOutcome int

const (
	outOK pathOutcome = iota
	outInfeasible
	outViolation
	outInconclusive
	outUnwind
	outStopped
)

type explorer struct {
	P       *program
	harness string
	fn      *ssa.Function

	mu       sync.Mutex
	cv       *sync.Cond
	stack    []workItem
	busy     int
	stopped  bool
	deadline time.Time
	timedOut bool

	// results
	paths        int64
	okPaths      int64
	infeasible   int64
	unwinds      int64
	stoppedPaths int64
	inconclusive []string
	nInconcl     int64
	violations   []violation
	covers       map[string]int64
	asserts      int64
	decisions    int64
	steps        int64
	samples      []pathSample
	funcs        map[string]bool
	solver       solverStats
	maxViol      int
	lossy        int64
	seed         int
	valSamples   []violation
	validated    int
	violKeys     map[string]int
	rawViolations int64
}

type pathSample struct {
	Trace    []string          `json:"trace"`
	Choices  []int64           `json:"choices"`
	Inputs   map[string]string `json:"witness_inputs"`
	Branches int               `json:"solver_decided_branches"`
	Outcome  string            `json:"outcome"`
}

func newExplorer(P *program, harness string, fn *ssa.Function, budget time.Duration) *explorer {
	ex := &explorer{P: P, harness: harness, fn: fn, covers: map[string]int64{}, funcs: map[string]bool{}, maxViol: 8, violKeys: map[string]int{}}
	ex.cv = sync.NewCond(&ex.mu)
	ex.deadline = time.Now().Add(budget)
	return ex
}

func (ex *explorer) push(w workItem) {
	ex.mu.Lock()
	ex.stack = append(ex.stack, w)
	ex.mu.Unlock()
	ex.cv.Signal()
}

func (ex *explorer) pop() (workItem, bool) {
	ex.mu.Lock()
	defer ex.mu.Unlock()
	for {
		if ex.stopped {
			return workItem{}, false
		}
		if n := len(ex.stack); n > 0 {
			w := ex.stack[n-1]
			ex.stack = ex.stack[:n-1]
			ex.busy++
			return w, true
		}
		if ex.busy == 0 {
			ex.cv.Broadcast()
			return workItem{}, false
		}
		ex.cv.Wait()
	}
}

func (ex *explorer) done() {
	ex.mu.Lock()
	ex.busy--
	if time.Now().After(ex.deadline) && !ex.stopped {
		ex.stopped = true
		ex.timedOut = len(ex.stack) > 0 || ex.busy > 0
	}
	if ex.busy == 0 && len(ex.stack) == 0 || ex.stopped {
		ex.cv.Broadcast()
	}
	ex.mu.Unlock()
}

func (ex *explorer) noteInconclusive(msg string) {
	ex.mu.Lock()
	ex.nInconcl++
	if len(ex.inconclusive) < 20 {
		ex.inconclusive = append(ex.inconclusive, msg)
	}
	ex.mu.Unlock()
}

func (ex *explorer) noteAssert() {
	ex.mu.Lock()
	ex.asserts++
	ex.mu.Unlock()
}

// runWorker executes work items until the frontier is empty.
func (ex *explorer) runWorker(id int) {
	i := &interpreter{P: ex.P, globals: make(map[*ssa.Global]*value), tt: newTermTable(), ex: ex, worker: id}
	sol, err := newSolver(ex.P.solverKind, ex.P.solverTimeoutMs)
	if err != nil {
		fmt.Fprintln(os.Stderr, "FATAL: cannot start solver:", err)
		os.Exit(3)
	}
	i.sol = sol
	defer func() {
		ex.mu.Lock()
		ex.solver.queries += sol.stats.queries
		ex.solver.sat += sol.stats.sat
		ex.solver.unsat += sol.stats.unsat
		ex.solver.unknown += sol.stats.unknown
		ex.solver.time += sol.stats.time
		ex.mu.Unlock()
		sol.close()
	}()
	i.initOnce()
	for {
		w, ok := ex.pop()
		if !ok {
			return
		}
		i.runPath(w)
		ex.done()
	}
}

func (i *interpreter) runPath(w workItem) {
	ex := i.ex
	i.tt.reset()
	i.sol.newScope()
	p := &pathState{prefix: w.prefix, covers: map[string]bool{}, replay: i.replayIn}
	i.path = p
	model := w.model
	if model == nil {
		model = Model{}
	}
	i.setModel(model)
	i.mutexes = make(map[*value]*mutexState)
	i.panicStack = nil
	i.resetGlobals()
	i.sched = newScheduler(i)

	outcome := outOK
	var abortMsg string
	func() {
		defer func() {
			r := recover()
			if r == nil {
				return
			}
			switch r := r.(type) {
			case engineAbort:
				abortMsg = r.msg
				switch r.kind {
				case abInfeasible:
					outcome = outInfeasible
				case abInconclusive:
					outcome = outInconclusive
				case abUnwind:
					outcome = outUnwind
					if i.P.params["unwind_violation"] == 1 {
						// termination is the property: the code-derived step cap was exceeded
						i.recordViolation("unwind", "non-termination", r.msg, p.model)
						outcome = outViolation
					}
				case abDeadlock:
					i.recordViolation("deadlock", "deadlock", r.msg, p.model)
					outcome = outViolation
				case abStop:
					outcome = outStopped
				}
			default:
				// uncaught target panic (or an engine bug surfacing as one)
				msg := panicString(r)
				if _, isRT := r.(runtime.Error); isRT || strings.HasPrefix(msg, "engine:") {
					msg += "\n" + string(i.panicStack)
				}
				i.recordViolation("panic", "uncaught-panic", msg+" @ "+i.panicWhere, p.model)
				outcome = outViolation
			}
		}()
		i.sched.runMain(func(fr *frame) {
			call(i, fr, token.NoPos, ex.fn, nil)
		})
	}()
	i.sched.teardown()
	if len(p.violations) > 0 && outcome != outInconclusive {
		outcome = outViolation
	}

	ex.mu.Lock()
	ex.paths++
	ex.decisions += int64(len(p.decisions))
	ex.steps += p.steps
	ex.lossy += int64(p.lossyStrings)
	switch outcome {
	case outOK:
		ex.okPaths++
		for c := range p.covers {
			ex.covers[c]++
		}
	case outInfeasible:
		ex.infeasible++
	case outInconclusive:
		ex.nInconcl++
		if len(ex.inconclusive) < 20 {
			ex.inconclusive = append(ex.inconclusive, abortMsg)
		}
	case outUnwind:
		ex.unwinds++
		if len(ex.inconclusive) < 20 {
			ex.inconclusive = append(ex.inconclusive, "UNWIND: "+abortMsg)
		}
	case outStopped:
		ex.stoppedPaths++
	}
	if outcome == outViolation || outcome == outStopped {
		for c := range p.covers {
			ex.covers[c]++
		}
		for _, v := range p.violations {
			ex.rawViolations++
			key := v.Label + "|" + strings.Join(v.Trace, ";")
			if ex.violKeys[key] < 3 && len(ex.violations) < 600 {
				ex.violKeys[key]++
				ex.violations = append(ex.violations, v)
			}
		}
	}
	if outcome == outOK && p.goroutines == 0 && p.replay == nil &&
		(len(ex.valSamples) < 2 || (len(ex.valSamples) < 4 && len(p.decisions) > 10 && ex.paths%29 == int64(ex.seed%29))) {
		ex.valSamples = append(ex.valSamples, i.snapshotInputs("pass", "sample", "", p.model))
	}
	if outcome == outOK && (len(ex.samples) < 3 || (len(ex.samples) < 6 && len(p.decisions) > 8 && ex.paths%17 == 0)) {
		ex.samples = append(ex.samples, i.sample(p, "ok"))
	}
	ex.mu.Unlock()
}

func (i *interpreter) sample(p *pathState, outcome string) pathSample {
	s := pathSample{Trace: append([]string(nil), p.trace...), Choices: append([]int64(nil), p.chooses...),
		Inputs: map[string]string{}, Outcome: outcome}
	ev := newEvaluator(p.model)
	for k, r := range p.nondets {
		if k >= 24 {
			break
		}
		s.Inputs[r.Name] = fmt.Sprintf("%#x", ev.eval(r.term))
	}
	for _, d := range p.decisions {
		if d.kind != dChoose {
			s.Branches++
		}
	}
	return s
}

func panicString(r interface{}) string {
	switch r := r.(type) {
	case targetPanic:
		return "panic: " + toString(r.v)
	case runtime.Error:
		return "runtime error: " + r.Error()
	case string:
		return r
	case error:
		return r.Error()
	}
	return fmt.Sprintf("%v", r)
}

func (ex *explorer) run(workers int) {
	ex.push(workItem{})
	var wg sync.WaitGroup
	for w := 0; w < workers; w++ {
		wg.Add(1)
		go func(id int) {
			defer wg.Done()
			ex.runWorker(id)
		}(w)
	}
	wg.Wait()
	sort.Strings(ex.inconclusive)
}

// engineConcreteReplay re-executes the harness in the engine with every
// nondeterministic input and every choice (including scheduler decisions)
// fixed to the recorded counterexample: no symbolic value remains, the real
// SSA is run concretely under the recorded schedule.  Used only when the
// schedule cannot be forced on the natively compiled code.
func engineConcreteReplay(P *program, v violation) (bool, string) {
	fn := P.pkg.Func("vH_" + v.Harness)
	if fn == nil {
		return false, "harness not found"
	}
	ex := newExplorer(P, v.Harness, fn, 2*time.Minute)
	i := &interpreter{P: P, globals: make(map[*ssa.Global]*value), tt: newTermTable(), ex: ex, worker: 0}
	sol, err := newSolver(P.solverKind, P.solverTimeoutMs)
	if err != nil {
		return false, err.Error()
	}
	defer sol.close()
	i.sol = sol
	i.initOnce()
	in := &replayInput{chooses: v.Chooses}
	for _, n := range v.Nondets {
		in.nondets = append(in.nondets, n.Val)
	}
	i.replayIn = in
	ex.busy = 1
	i.runPath(workItem{})
	for _, got := range ex.violations {
		if got.Label == v.Label && got.Kind == v.Kind {
			return true, "reproduced by engine-concrete replay under the recorded schedule"
		}
	}
	return false, fmt.Sprintf("engine-concrete replay did not reproduce (%d violations, %d inconclusive)", len(ex.violations), ex.nInconcl)
}
