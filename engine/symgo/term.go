package main

// Hash-consed QF_BV terms, with constant folding, a few structural
// simplifications, a native evaluator (used to evaluate branch conditions
// under the cached model of the current path) and an SMT-LIB2 printer.

import (
	"fmt"
	"strings"
)

type opKind uint8

const (
	opConst opKind = iota // bit-vector constant (k = value)
	opVar                 // bit-vector or bool variable (name)
	opTrue
	opFalse
	opNot
	opAnd
	opOr
	opEq  // bv = bv  or bool = bool
	opIte // c ? a : b   (bv or bool)
	opBvNot
	opBvNeg
	opAdd
	opSub
	opMul
	opUDiv
	opURem
	opSDiv
	opSRem
	opBvAnd
	opBvOr
	opBvXor
	opShl
	opLShr
	opAShr
	opUlt
	opUle
	opSlt
	opSle
	opExtract // k = hi<<8 | lo
	opConcat
	opZExt // to width w
	opSExt // to width w
)

var opNames = [...]string{
	opNot: "not", opAnd: "and", opOr: "or", opEq: "=", opIte: "ite",
	opBvNot: "bvnot", opBvNeg: "bvneg", opAdd: "bvadd", opSub: "bvsub", opMul: "bvmul",
	opUDiv: "bvudiv", opURem: "bvurem", opSDiv: "bvsdiv", opSRem: "bvsrem",
	opBvAnd: "bvand", opBvOr: "bvor", opBvXor: "bvxor", opShl: "bvshl", opLShr: "bvlshr", opAShr: "bvashr",
	opUlt: "bvult", opUle: "bvule", opSlt: "bvslt", opSle: "bvsle", opConcat: "concat",
}

// Term is an immutable DAG node.  w == 0 means sort Bool.
type Term struct {
	op      opKind
	w       uint8
	a, b, c *Term
	k       uint64
	name    string
	id      int32
}

func (t *Term) isBool() bool  { return t.w == 0 }
func (t *Term) isConst() bool { return t.op == opConst || t.op == opTrue || t.op == opFalse }

type termKey struct {
	op      opKind
	w       uint8
	a, b, c int32
	k       uint64
	name    string
}

// termTable is per worker and is reset for every path.
type termTable struct {
	m     map[termKey]*Term
	next  int32
	tTrue *Term
	tFals *Term
	nvars int
}

func newTermTable() *termTable {
	tt := &termTable{}
	tt.reset()
	return tt
}

func (tt *termTable) reset() {
	tt.m = make(map[termKey]*Term, 1024)
	tt.next = 0
	tt.nvars = 0
	tt.tTrue = tt.mk(opTrue, 0, nil, nil, nil, 0, "")
	tt.tFals = tt.mk(opFalse, 0, nil, nil, nil, 0, "")
}

func tid(t *Term) int32 {
	if t == nil {
		return -1
	}
	return t.id
}

func (tt *termTable) mk(op opKind, w uint8, a, b, c *Term, k uint64, name string) *Term {
	key := termKey{op, w, tid(a), tid(b), tid(c), k, name}
	if t, ok := tt.m[key]; ok {
		return t
	}
	t := &Term{op: op, w: w, a: a, b: b, c: c, k: k, name: name, id: tt.next}
	tt.next++
	tt.m[key] = t
	return t
}

func mask(w uint8) uint64 {
	if w >= 64 {
		return ^uint64(0)
	}
	return (uint64(1) << w) - 1
}

func sext(v uint64, w uint8) int64 {
	if w >= 64 {
		return int64(v)
	}
	sh := 64 - w
	return int64(v<<sh) >> sh
}

func (tt *termTable) Const(w uint8, v uint64) *Term {
	return tt.mk(opConst, w, nil, nil, nil, v&mask(w), "")
}

func (tt *termTable) Bool(b bool) *Term {
	if b {
		return tt.tTrue
	}
	return tt.tFals
}

func (tt *termTable) Var(w uint8, name string) *Term {
	tt.nvars++
	return tt.mk(opVar, w, nil, nil, nil, 0, name)
}

func (tt *termTable) Not(a *Term) *Term {
	switch a.op {
	case opTrue:
		return tt.tFals
	case opFalse:
		return tt.tTrue
	case opNot:
		return a.a
	}
	return tt.mk(opNot, 0, a, nil, nil, 0, "")
}

func (tt *termTable) And(a, b *Term) *Term {
	if a.op == opFalse || b.op == opFalse {
		return tt.tFals
	}
	if a.op == opTrue {
		return b
	}
	if b.op == opTrue {
		return a
	}
	if a == b {
		return a
	}
	if a.id > b.id {
		a, b = b, a
	}
	return tt.mk(opAnd, 0, a, b, nil, 0, "")
}

func (tt *termTable) Or(a, b *Term) *Term {
	if a.op == opTrue || b.op == opTrue {
		return tt.tTrue
	}
	if a.op == opFalse {
		return b
	}
	if b.op == opFalse {
		return a
	}
	if a == b {
		return a
	}
	if a.id > b.id {
		a, b = b, a
	}
	return tt.mk(opOr, 0, a, b, nil, 0, "")
}

func (tt *termTable) Eq(a, b *Term) *Term {
	if a == b {
		return tt.tTrue
	}
	if a.w != b.w {
		panic(fmt.Sprintf("Eq: width mismatch %d vs %d", a.w, b.w))
	}
	if a.isConst() && b.isConst() {
		if a.isBool() {
			return tt.Bool(a.op == b.op)
		}
		return tt.Bool(a.k == b.k)
	}
	if a.isBool() {
		if a.op == opTrue {
			return b
		}
		if b.op == opTrue {
			return a
		}
		if a.op == opFalse {
			return tt.Not(b)
		}
		if b.op == opFalse {
			return tt.Not(a)
		}
	}
	// (= (ite c k1 k2) k) with constants folds to c / not c / false.
	if b.isConst() && a.op == opIte && a.b.isConst() && a.c.isConst() && !a.isBool() {
		tb, fb := a.b.k == b.k, a.c.k == b.k
		switch {
		case tb && fb:
			return tt.tTrue
		case tb:
			return a.a
		case fb:
			return tt.Not(a.a)
		default:
			return tt.tFals
		}
	}
	if a.isConst() && b.op == opIte {
		return tt.Eq(b, a)
	}
	if a.id > b.id {
		a, b = b, a
	}
	return tt.mk(opEq, 0, a, b, nil, 0, "")
}

func (tt *termTable) Ite(c, a, b *Term) *Term {
	if c.op == opTrue {
		return a
	}
	if c.op == opFalse {
		return b
	}
	if a == b {
		return a
	}
	if a.w != b.w {
		panic("Ite: width mismatch")
	}
	if a.isBool() {
		if a.op == opTrue && b.op == opFalse {
			return c
		}
		if a.op == opFalse && b.op == opTrue {
			return tt.Not(c)
		}
	}
	return tt.mk(opIte, a.w, c, a, b, 0, "")
}

func (tt *termTable) Un(op opKind, a *Term) *Term {
	if a.op == opConst {
		switch op {
		case opBvNot:
			return tt.Const(a.w, ^a.k)
		case opBvNeg:
			return tt.Const(a.w, -a.k)
		}
	}
	if a.op == op { // double negation
		return a.a
	}
	return tt.mk(op, a.w, a, nil, nil, 0, "")
}

func evalBin(op opKind, w uint8, x, y uint64) uint64 {
	m := mask(w)
	switch op {
	case opAdd:
		return (x + y) & m
	case opSub:
		return (x - y) & m
	case opMul:
		return (x * y) & m
	case opUDiv:
		if y == 0 {
			return m
		}
		return x / y
	case opURem:
		if y == 0 {
			return x
		}
		return x % y
	case opSDiv:
		sx, sy := sext(x, w), sext(y, w)
		if sy == 0 {
			if sx >= 0 {
				return m
			}
			return 1
		}
		if sy == -1 {
			return uint64(-sx) & m
		}
		return uint64(sx/sy) & m
	case opSRem:
		sx, sy := sext(x, w), sext(y, w)
		if sy == 0 {
			return x
		}
		if sy == -1 {
			return 0
		}
		return uint64(sx%sy) & m
	case opBvAnd:
		return x & y
	case opBvOr:
		return x | y
	case opBvXor:
		return x ^ y
	case opShl:
		if y >= uint64(w) {
			return 0
		}
		return (x << y) & m
	case opLShr:
		if y >= uint64(w) {
			return 0
		}
		return x >> y
	case opAShr:
		sx := sext(x, w)
		if y >= uint64(w) {
			y = uint64(w) - 1
		}
		return uint64(sx>>y) & m
	case opUlt:
		return b2u(x < y)
	case opUle:
		return b2u(x <= y)
	case opSlt:
		return b2u(sext(x, w) < sext(y, w))
	case opSle:
		return b2u(sext(x, w) <= sext(y, w))
	}
	panic("evalBin: bad op")
}

func b2u(b bool) uint64 {
	if b {
		return 1
	}
	return 0
}

func isCmp(op opKind) bool { return op == opUlt || op == opUle || op == opSlt || op == opSle }

// Bin builds a binary bit-vector operation (arith, logic, shifts, comparisons).
func (tt *termTable) Bin(op opKind, a, b *Term) *Term {
	if a.w != b.w {
		panic(fmt.Sprintf("Bin %s: width mismatch %d vs %d", opNames[op], a.w, b.w))
	}
	if a.op == opConst && b.op == opConst {
		r := evalBin(op, a.w, a.k, b.k)
		if isCmp(op) {
			return tt.Bool(r != 0)
		}
		return tt.Const(a.w, r)
	}
	w := a.w
	switch op {
	case opAdd:
		if a.op == opConst && a.k == 0 {
			return b
		}
		if b.op == opConst && b.k == 0 {
			return a
		}
	case opSub:
		if b.op == opConst && b.k == 0 {
			return a
		}
		if a == b {
			return tt.Const(w, 0)
		}
	case opMul:
		if a.op == opConst && a.k == 1 {
			return b
		}
		if b.op == opConst && b.k == 1 {
			return a
		}
		if (a.op == opConst && a.k == 0) || (b.op == opConst && b.k == 0) {
			return tt.Const(w, 0)
		}
	case opBvAnd:
		if a == b {
			return a
		}
		if a.op == opConst {
			a, b = b, a
		}
		if b.op == opConst {
			if b.k == 0 {
				return b
			}
			if b.k == mask(w) {
				return a
			}
		}
	case opBvOr, opBvXor:
		if a == b {
			if op == opBvOr {
				return a
			}
			return tt.Const(w, 0)
		}
		if a.op == opConst {
			a, b = b, a
		}
		if b.op == opConst && b.k == 0 {
			return a
		}
		if op == opBvOr {
			if r := tt.orToConcat(a, b); r != nil {
				return r
			}
		}
	case opShl, opLShr, opAShr:
		if b.op == opConst && b.k == 0 {
			return a
		}
		if b.op == opConst && b.k >= uint64(w) && op != opAShr {
			return tt.Const(w, 0)
		}
		// zero-extended byte/word shifted left by a constant: keep as concat
		// with explicit zero padding so that OR-composition becomes concat.
		if op == opShl && b.op == opConst {
			if z := tt.asPadded(a); z != nil {
				sh := uint8(b.k)
				// value occupies bits [lo, hi]; after shift [lo+sh, hi+sh]
				if int(z.hi)+int(sh) < int(w) {
					return tt.padded(w, z.core, z.lo+sh)
				}
			}
		}
		if op == opLShr && b.op == opConst {
			sh := uint8(b.k)
			return tt.ZExt(tt.Extract(a, w-1, sh), w)
		}
	case opUlt:
		if a == b {
			return tt.tFals
		}
		if b.op == opConst && b.k == 0 {
			return tt.tFals
		}
	case opUle:
		if a == b {
			return tt.tTrue
		}
		if a.op == opConst && a.k == 0 {
			return tt.tTrue
		}
	case opSlt:
		if a == b {
			return tt.tFals
		}
	case opSle:
		if a == b {
			return tt.tTrue
		}
	}
	// comparisons of an (ite c k1 k2) with a constant fold to c-expressions
	if isCmp(op) {
		if r := tt.cmpIteConst(op, a, b); r != nil {
			return r
		}
		return tt.mk(op, 0, a, b, nil, 0, "")
	}
	if (op == opAdd || op == opMul || op == opBvAnd || op == opBvOr || op == opBvXor) && a.id > b.id {
		a, b = b, a
	}
	return tt.mk(op, w, a, b, nil, 0, "")
}

// cmpIteConst folds cmp(ite(c,k1,k2), k) and nested ite-of-constants (the
// shape returned by the bytes.Compare stub) into boolean structure over c.
func (tt *termTable) cmpIteConst(op opKind, a, b *Term) *Term {
	if b.op == opConst && a.op == opIte && iteLeavesConst(a, 4) {
		return tt.mapIte(a, func(leaf *Term) *Term { return tt.Bool(evalBin(op, leaf.w, leaf.k, b.k) != 0) })
	}
	if a.op == opConst && b.op == opIte && iteLeavesConst(b, 4) {
		return tt.mapIte(b, func(leaf *Term) *Term { return tt.Bool(evalBin(op, leaf.w, a.k, leaf.k) != 0) })
	}
	return nil
}

func iteLeavesConst(t *Term, depth int) bool {
	if t.op == opConst {
		return true
	}
	if t.op == opIte && depth > 0 {
		return iteLeavesConst(t.b, depth-1) && iteLeavesConst(t.c, depth-1)
	}
	return false
}

func (tt *termTable) mapIte(t *Term, f func(*Term) *Term) *Term {
	if t.op == opIte {
		return tt.Ite(t.a, tt.mapIte(t.b, f), tt.mapIte(t.c, f))
	}
	return f(t)
}

// "padded" form: zero bits, a core term, zero bits — represented as
// concat(zeros, core, zeros).  Used to turn shift/or byte composition
// (binary.BigEndian.Uint32 etc.) into concat so that extract∘concat folds.
type paddedView struct {
	core   *Term
	lo, hi uint8 // bit positions of core inside the word
}

func (tt *termTable) asPadded(t *Term) *paddedView {
	switch t.op {
	case opZExt:
		return &paddedView{t.a, 0, t.a.w - 1}
	case opConcat:
		// concat(hiPart, loPart)
		if t.b.op == opConst && t.b.k == 0 {
			// core in the high part
			if v := tt.asPadded(t.a); v != nil {
				return &paddedView{v.core, v.lo + t.b.w, v.hi + t.b.w}
			}
			return &paddedView{t.a, t.b.w, t.w - 1}
		}
		if t.a.op == opConst && t.a.k == 0 {
			if v := tt.asPadded(t.b); v != nil {
				return v
			}
			return &paddedView{t.b, 0, t.b.w - 1}
		}
	}
	return nil
}

func (tt *termTable) padded(w uint8, core *Term, lo uint8) *Term {
	r := core
	if lo > 0 {
		r = tt.Concat(r, tt.Const(lo, 0))
	}
	if r.w < w {
		r = tt.Concat(tt.Const(w-r.w, 0), r)
	}
	return r
}

// orToConcat: or of two padded values with disjoint bit ranges is a concat.
func (tt *termTable) orToConcat(a, b *Term) *Term {
	pa, pb := tt.asPadded(a), tt.asPadded(b)
	if pa == nil || pb == nil {
		return nil
	}
	if pa.lo > pb.lo {
		pa, pb = pb, pa
	}
	// pa is the lower one
	if pa.hi >= pb.lo {
		return nil
	}
	w := a.w
	r := pa.core
	if pa.lo > 0 {
		r = tt.Concat(r, tt.Const(pa.lo, 0))
	}
	if gap := pb.lo - pa.hi - 1; gap > 0 {
		r = tt.Concat(tt.Const(gap, 0), r)
	}
	r = tt.Concat(pb.core, r)
	if r.w < w {
		r = tt.Concat(tt.Const(w-r.w, 0), r)
	}
	return r
}

func (tt *termTable) Extract(a *Term, hi, lo uint8) *Term {
	if hi < lo || hi >= a.w {
		panic(fmt.Sprintf("Extract: bad range [%d:%d] of width %d", hi, lo, a.w))
	}
	if lo == 0 && hi == a.w-1 {
		return a
	}
	w := hi - lo + 1
	switch a.op {
	case opConst:
		return tt.Const(w, a.k>>lo)
	case opExtract:
		l0 := uint8(a.k & 0xff)
		return tt.Extract(a.a, hi+l0, lo+l0)
	case opConcat:
		lw := a.b.w
		if hi < lw {
			return tt.Extract(a.b, hi, lo)
		}
		if lo >= lw {
			return tt.Extract(a.a, hi-lw, lo-lw)
		}
		return tt.Concat(tt.Extract(a.a, hi-lw, 0), tt.Extract(a.b, lw-1, lo))
	case opZExt:
		iw := a.a.w
		if hi < iw {
			return tt.Extract(a.a, hi, lo)
		}
		if lo >= iw {
			return tt.Const(w, 0)
		}
		return tt.Concat(tt.Const(hi-iw+1, 0), tt.Extract(a.a, iw-1, lo))
	case opSExt:
		iw := a.a.w
		if hi < iw {
			return tt.Extract(a.a, hi, lo)
		}
	case opIte:
		if a.b.isConst() && a.c.isConst() {
			return tt.Ite(a.a, tt.Extract(a.b, hi, lo), tt.Extract(a.c, hi, lo))
		}
	}
	return tt.mk(opExtract, w, a, nil, nil, uint64(hi)<<8|uint64(lo), "")
}

func (tt *termTable) Concat(a, b *Term) *Term {
	if int(a.w)+int(b.w) > 64 {
		panic("Concat: width > 64")
	}
	w := a.w + b.w
	if a.op == opConst && b.op == opConst {
		return tt.Const(w, a.k<<b.w|b.k)
	}
	// concat(extract(x,h,m+1), extract(x,m,l)) = extract(x,h,l)
	if a.op == opExtract && b.op == opExtract && a.a == b.a {
		ah, al := uint8(a.k>>8), uint8(a.k&0xff)
		bh, bl := uint8(b.k>>8), uint8(b.k&0xff)
		if al == bh+1 {
			return tt.Extract(a.a, ah, bl)
		}
	}
	// right-assoc normalisation helps the rule above fire on chains:
	// concat(concat(p,q), r) with q,r adjacent extracts
	if a.op == opConcat && a.b.op == opExtract && b.op == opExtract && a.b.a == b.a {
		qh, ql := uint8(a.b.k>>8), uint8(a.b.k&0xff)
		bh, bl := uint8(b.k>>8), uint8(b.k&0xff)
		_ = qh
		if ql == bh+1 {
			return tt.Concat(a.a, tt.Extract(b.a, uint8(a.b.k>>8), bl))
		}
	}
	if a.op == opConst && a.k == 0 && b.op == opConcat && b.a.op == opConst && b.a.k == 0 {
		return tt.Concat(tt.Const(a.w+b.a.w, 0), b.b)
	}
	return tt.mk(opConcat, w, a, b, nil, 0, "")
}

func (tt *termTable) ZExt(a *Term, w uint8) *Term {
	if a.w == w {
		return a
	}
	if a.w > w {
		panic("ZExt: narrowing")
	}
	if a.op == opConst {
		return tt.Const(w, a.k)
	}
	if a.op == opZExt {
		return tt.ZExt(a.a, w)
	}
	if a.op == opConcat && a.a.op == opConst && a.a.k == 0 {
		return tt.Concat(tt.Const(w-a.w+a.a.w, 0), a.b)
	}
	return tt.mk(opZExt, w, a, nil, nil, 0, "")
}

func (tt *termTable) SExt(a *Term, w uint8) *Term {
	if a.w == w {
		return a
	}
	if a.w > w {
		panic("SExt: narrowing")
	}
	if a.op == opConst {
		return tt.Const(w, uint64(sext(a.k, a.w)))
	}
	return tt.mk(opSExt, w, a, nil, nil, 0, "")
}

// ---------------------------------------------------------------- evaluation

// Model maps variable names to values (bools as 0/1). Missing = 0.
type Model map[string]uint64

type evaluator struct {
	m    Model
	memo map[int32]uint64
}

func newEvaluator(m Model) *evaluator {
	return &evaluator{m: m, memo: make(map[int32]uint64, 256)}
}

func (ev *evaluator) eval(t *Term) uint64 {
	switch t.op {
	case opConst:
		return t.k
	case opTrue:
		return 1
	case opFalse:
		return 0
	case opVar:
		return ev.m[t.name] & maskB(t.w)
	}
	if v, ok := ev.memo[t.id]; ok {
		return v
	}
	var r uint64
	switch t.op {
	case opNot:
		r = 1 - ev.eval(t.a)
	case opAnd:
		r = ev.eval(t.a) & ev.eval(t.b)
	case opOr:
		r = ev.eval(t.a) | ev.eval(t.b)
	case opEq:
		r = b2u(ev.eval(t.a) == ev.eval(t.b))
	case opIte:
		if ev.eval(t.a) != 0 {
			r = ev.eval(t.b)
		} else {
			r = ev.eval(t.c)
		}
	case opBvNot:
		r = ^ev.eval(t.a) & mask(t.w)
	case opBvNeg:
		r = -ev.eval(t.a) & mask(t.w)
	case opExtract:
		hi, lo := uint8(t.k>>8), uint8(t.k&0xff)
		r = (ev.eval(t.a) >> lo) & mask(hi-lo+1)
	case opConcat:
		r = ev.eval(t.a)<<t.b.w | ev.eval(t.b)
	case opZExt:
		r = ev.eval(t.a)
	case opSExt:
		r = uint64(sext(ev.eval(t.a), t.a.w)) & mask(t.w)
	default:
		r = evalBin(t.op, t.a.w, ev.eval(t.a), ev.eval(t.b))
	}
	ev.memo[t.id] = r
	return r
}

func maskB(w uint8) uint64 {
	if w == 0 {
		return 1
	}
	return mask(w)
}

// ---------------------------------------------------------------- printing

func sortOf(t *Term) string {
	if t.w == 0 {
		return "Bool"
	}
	return fmt.Sprintf("(_ BitVec %d)", t.w)
}

func constLit(w uint8, v uint64) string {
	if w%4 == 0 {
		return fmt.Sprintf("#x%0*x", int(w/4), v)
	}
	return fmt.Sprintf("#b%0*b", int(w), v)
}

// smtPrinter emits declarations/definitions incrementally for one solver
// scope; every non-leaf term is named once (define-fun) so output is linear.
type smtPrinter struct {
	emitted map[int32]bool
	out     *strings.Builder
}

func (p *smtPrinter) ref(t *Term) string {
	switch t.op {
	case opConst:
		return constLit(t.w, t.k)
	case opTrue:
		return "true"
	case opFalse:
		return "false"
	case opVar:
		p.declare(t)
		return t.name
	}
	p.define(t)
	return fmt.Sprintf("t%d", t.id)
}

func (p *smtPrinter) declare(t *Term) {
	if p.emitted[t.id] {
		return
	}
	p.emitted[t.id] = true
	fmt.Fprintf(p.out, "(declare-const %s %s)\n", t.name, sortOf(t))
}

func (p *smtPrinter) define(t *Term) {
	if p.emitted[t.id] {
		return
	}
	p.emitted[t.id] = true
	var body string
	switch t.op {
	case opNot, opBvNot, opBvNeg:
		body = fmt.Sprintf("(%s %s)", opNames[t.op], p.ref(t.a))
	case opIte:
		body = fmt.Sprintf("(ite %s %s %s)", p.ref(t.a), p.ref(t.b), p.ref(t.c))
	case opExtract:
		body = fmt.Sprintf("((_ extract %d %d) %s)", t.k>>8, t.k&0xff, p.ref(t.a))
	case opZExt:
		body = fmt.Sprintf("((_ zero_extend %d) %s)", t.w-t.a.w, p.ref(t.a))
	case opSExt:
		body = fmt.Sprintf("((_ sign_extend %d) %s)", t.w-t.a.w, p.ref(t.a))
	default:
		body = fmt.Sprintf("(%s %s %s)", opNames[t.op], p.ref(t.a), p.ref(t.b))
	}
	fmt.Fprintf(p.out, "(define-fun t%d () %s %s)\n", t.id, sortOf(t), body)
}

// String renders a term fully inline (debugging / samples only).
func (t *Term) String() string {
	switch t.op {
	case opConst:
		return constLit(t.w, t.k)
	case opTrue:
		return "true"
	case opFalse:
		return "false"
	case opVar:
		return t.name
	case opNot, opBvNot, opBvNeg:
		return fmt.Sprintf("(%s %s)", opNames[t.op], t.a)
	case opIte:
		return fmt.Sprintf("(ite %s %s %s)", t.a, t.b, t.c)
	case opExtract:
		return fmt.Sprintf("((_ extract %d %d) %s)", t.k>>8, t.k&0xff, t.a)
	case opZExt:
		return fmt.Sprintf("((_ zero_extend %d) %s)", t.w-t.a.w, t.a)
	case opSExt:
		return fmt.Sprintf("((_ sign_extend %d) %s)", t.w-t.a.w, t.a)
	}
	return fmt.Sprintf("(%s %s %s)", opNames[t.op], t.a, t.b)
}
