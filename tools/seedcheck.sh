#!/bin/bash
# usage: tools/seedcheck.sh <dir with patch.diff + demo_test.go> <property id> [more property ids...]
# 1. confirms the seeded change in a scratch worktree: builds, existing suite passes,
#    demo passes without and fails with the change
# 2. applies it to /repo, runs the quick check of each listed property, undoes it
set -u
export GOFLAGS=-mod=mod GOPROXY=off GOSUMDB=off GOTOOLCHAIN=local
d=$(cd "$1" && pwd); shift
props="$@"
wt=$(mktemp -d /tmp/seedwt.XXXXXX)
rmdir "$wt"
git -C /repo worktree add --detach "$wt" HEAD >/dev/null 2>&1 || { echo "cannot create worktree"; exit 3; }
cleanup() { git -C /repo worktree remove --force "$wt" >/dev/null 2>&1; rm -rf "$wt"; }
trap cleanup EXIT
cp "$d/demo_test.go" "$wt/zz_seed_demo_test.go"
echo "== demo on unchanged tree (must pass)"
(cd "$wt" && timeout 300 go test -vet=off -count=1 -run '^TestSeedDemo$' -timeout 120s . 2>&1 | tail -3)
base=${PIPESTATUS[0]}
(cd "$wt" && timeout 300 go test -vet=off -count=1 -run '^TestSeedDemo$' -timeout 120s . >/dev/null 2>&1); base=$?
if ! git -C "$wt" apply "$d/patch.diff"; then echo "RESULT patch does not apply"; exit 3; fi
echo "== build + existing suite with the change (must pass)"
rm "$wt/zz_seed_demo_test.go"
(cd "$wt" && go build ./... 2>&1 | tail -3)
(cd "$wt" && timeout 1500 go test -vet=off -count=1 -timeout 20m ./... 2>&1 | tail -4);
(cd "$wt" && timeout 1500 go test -vet=off -count=1 -timeout 20m ./... >/dev/null 2>&1); suite=$?
cp "$d/demo_test.go" "$wt/zz_seed_demo_test.go"
echo "== demo with the change (must fail)"
(cd "$wt" && timeout 300 go test -vet=off -count=1 -run '^TestSeedDemo$' -timeout 120s . 2>&1 | tail -5)
(cd "$wt" && timeout 300 go test -vet=off -count=1 -run '^TestSeedDemo$' -timeout 120s . >/dev/null 2>&1); mut=$?
echo "CONFIRM demo_unchanged_rc=$base suite_with_change_rc=$suite demo_with_change_rc=$mut"
if [ $base -ne 0 ] || [ $suite -ne 0 ] || [ $mut -eq 0 ]; then echo "RESULT not a valid seeded change"; exit 4; fi
if [ -n "$(git -C /repo status --porcelain)" ]; then echo "RESULT /repo not clean, refusing"; exit 5; fi
git -C /repo apply "$d/patch.diff" || { echo "RESULT cannot apply to /repo"; exit 3; }
for p in $props; do
  s=$(date +%s)
  out=$(cd /verif && VERIF_NO_VALIDATE=1 ./bin/symgo check --property $p --tier ${TIER:-quick} 2>&1); rc=$?
  e=$(date +%s)
  echo "CHECK $p rc=$rc $((e-s))s"
  echo "$out" | grep -E "^(VIOLATION|INCONCLUSIVE|KNOWN-FINDING|   harness=)" | cut -c1-240 | head -8
done
git -C /repo checkout -- .
echo "RESULT done"
