package gkvlite

// C02 (durability), C11 (CopyTo), C07 (file errors).

// vAddSecondColl creates collection "b" with nb symbolic items through the API.
func vAddSecondColl(s *Store, nb int, cmp KeyCompare) (*Collection, *vModel) {
	c := s.SetCollection("b", cmp)
	if cmp == nil {
		cmp = vCmpDefault
	}
	m := &vModel{cmp: cmp}
	for i := 0; i < nb; i++ {
		k, v := vBytes(vName("bk", i), 1), vBytes(vName("bv", i), 1)
		p := vInt32(vName("bp", i))
		vAssume(p >= 0)
		vAssert("b-set", c.SetItem(&Item{Key: k, Val: v, Priority: p}) == nil)
		m.set(k, v, p)
	}
	return c, m
}

// vLeanSet / vLeanDelete: one mutation with a 1-byte symbolic key, valid
// arguments only (argument validation is C01's subject).
func vLeanSet(pre *vPre, name string) {
	vTrace("SetItem")
	k, v := vBytes(name, 1), vBytes(name+"v", 1)
	p := vInt32(name + "p")
	vAssume(p >= 0)
	vAssert("lean-set-ok", pre.c.SetItem(&Item{Key: k, Val: v, Priority: p}) == nil)
	pre.m.set(k, v, p)
}

func vLeanDelete(pre *vPre, name string) {
	vTrace("Delete")
	k := vBytes(name, 1)
	was, err := pre.c.Delete(k)
	vAssert("lean-delete-ok", vAnd(err == nil, was == pre.m.del(k)))
}

func vCheckStore(label string, s *Store, names []string, models []*vModel) {
	got := s.GetCollectionNames()
	vAssert(label+":names-count", len(got) == len(names))
	if len(got) != len(names) {
		return
	}
	for i, n := range names {
		vAssert(label+":name", got[i] == n)
		c := s.GetCollection(n)
		vAssert(label+":coll", c != nil)
		if c != nil {
			vCheckColl(label, c, models[i])
		}
	}
}

func vH_C02_step() {
	cfg := vCfgFromParams()
	cfg.file = true
	pre := vBuildPre(cfg)
	cfg = pre.cfg
	s, f := pre.s, pre.f
	names := []string{"a"}
	models := []*vModel{pre.m}
	var cb *Collection
	if vParam("ncolls") == 2 && vChoose("second-coll", 0, 1) == 1 {
		var mb *vModel
		cb, mb = vAddSecondColl(s, vChoose("nb", 0, 1), nil)
		names = append(names, "b")
		models = append(models, mb)
	}
	_ = cb
	// optionally dirty something first
	switch vChoose("pre-op", 0, 2*vParam("preop")) {
	case 1:
		vLeanSet(pre, "pk")
	case 2:
		vLeanDelete(pre, "pk")
	}
	vTrace("Flush")
	if vParam("flushfault") == 1 {
		// one transient file failure during the Flush: if Flush nevertheless
		// returns nil the state must be durable; if it reports the error, a
		// retried Flush must succeed and be durable
		if k := vChoose("flush-fail-at", 0, vParam("maxfail")); k > 0 {
			f.failAt = k
			if vChoose("torn", 0, 1) == 1 {
				f.torn = true
				f.tornLen = vInt("torn-len")
				vAssume(f.tornLen >= 0)
				vAssume(f.tornLen <= 64)
			}
			err := s.Flush()
			f.failAt, f.torn = 0, false
			if err != nil {
				vTrace("Flush failed, retried")
				vAssert("retried-flush-ok", s.Flush() == nil)
				vCover("flush-retried")
			}
		} else {
			vAssert("flush-ok", s.Flush() == nil)
		}
	} else {
		vAssert("flush-ok", s.Flush() == nil)
	}
	flushed := make([]*vModel, len(models))
	for i := range models {
		flushed[i] = models[i].clone()
	}
	fnames := append([]string(nil), names...)
	dec := vDecode(f.data, int64(len(f.data)))
	vAssert("root-lists-names", vAnd(dec.ok, len(dec.colls) == len(fnames)))
	// (b) trailing, unflushed operations
	nt := vChoose("trailing", 0, vParam("trailing"))
	for k := 0; k < nt; k++ {
		switch vChoose("trail-op", 0, 3) {
		case 0:
			vLeanSet(pre, "tk")
		case 1:
			vLeanDelete(pre, "tk")
		case 2:
			vTrace("SetCollection(c)")
			nc := s.SetCollection("c", nil)
			nc.Set([]byte("x"), []byte("y"))
		case 3:
			vTrace("RemoveCollection")
			s.RemoveCollection(names[len(names)-1])
			names = names[:len(names)-1]
			if len(names) == 0 {
				nt = 0
			}
			pre.c = nil
			k = nt
		}
	}
	if nt > 0 {
		vCover("trailing-unflushed")
	}
	// (a) re-open: exactly the state at the flush
	vTrace("Reopen")
	s2, err := NewStore(f)
	vAssert("reopen-ok", vAnd(err == nil, s2 != nil))
	if s2 == nil {
		return
	}
	vCheckStore("reopened", s2, fnames, flushed)
	// (c) second generation on the re-opened store
	if vChoose("second-generation", 0, vParam("secondgen")) == 1 {
		c2 := s2.GetCollection("a")
		k, v := vBytes("g2k", 1), vBytes("g2v", 1)
		vAssert("g2-set", c2.Set(k, v) == nil)
		it, _ := c2.GetItem(k, false)
		flushed[0].set(k, v, it.Priority)
		vAssert("g2-flush", s2.Flush() == nil)
		s3, err := NewStore(f)
		vAssert("g2-reopen", vAnd(err == nil, s3 != nil))
		if s3 != nil {
			vCheckStore("second-generation", s3, fnames, flushed)
		}
		vCover("second-generation")
	}
	vCover("done")
}

// ------------------------------------------------------------------ C11

// vCountItemWrites counts the item records that were written, however many
// WriteAt calls each took: a write that starts a record which is neither a
// root record nor a 52-byte node record is an item header; the writes that
// fall inside the record it announces (its own total-length field) belong to it.
func vCountItemWrites(f *vFile) int {
	n := 0
	var covered int64 = -1
	for i := 0; i < len(f.writes); i++ {
		w := f.writes[i]
		if w.n == 0 || w.off < covered {
			continue // empty write, or continuation of the item record in progress
		}
		if vHasStr(f.data, w.off, vMagicBeg+vMagicBeg) {
			continue // root record
		}
		if w.n == 52 {
			continue // node record (item records here are at most 16+2+2 bytes)
		}
		n++
		covered = w.off + int64(vbe(f.data, w.off, 4))
	}
	return n
}

func vH_C11_copyto() {
	cfg := vCfgFromParams()
	cfg.file = true
	if vChoose("custom-cmp", 0, 1) == 1 {
		cfg.cmp = vReverseCompare
	}
	pre := vBuildPre(cfg)
	cfg = pre.cfg
	s, f := pre.s, pre.f
	names := []string{"a"}
	models := []*vModel{pre.m}
	if vParam("ncolls") == 2 && vChoose("second-coll", 0, 1) == 1 {
		_, mb := vAddSecondColl(s, vChoose("nb", 0, 1), nil)
		names = append(names, "b")
		models = append(models, mb)
	}
	src := s
	switch vChoose("source", 0, 2) {
	case 1:
		vTrace("source=snapshot")
		src = s.Snapshot()
	case 2:
		vTrace("source=reopened")
		vAssert("flush-ok", s.Flush() == nil)
		var err error
		src, err = NewStoreEx(f, StoreCallbacks{KeyCompareForCollection: func(n string) KeyCompare {
			if n == "a" {
				return cfg.cmp
			}
			return nil
		}})
		vAssert("reopen-ok", vAnd(err == nil, src != nil))
	}
	total := 0
	for _, m := range models {
		total += len(m.ents)
	}
	var fe int
	switch vChoose("flushEvery", 0, 4) {
	case 0:
		fe = -1
	case 1:
		fe = 0
	case 2:
		fe = 1
	case 3:
		fe = 2
	case 4:
		fe = total + 1
	}
	vTraceInt("flushEvery", fe)
	f.resetLogs()
	srcLen := len(f.data)
	dst := &vFile{}
	res, err := src.CopyTo(dst, fe)
	vAssert("copyto-ok", vAnd(err == nil, res != nil))
	if res == nil {
		return
	}
	vCheckStore("destination", res, names, models)
	if fe > 0 {
		d2, err := NewStoreEx(dst, StoreCallbacks{KeyCompareForCollection: func(n string) KeyCompare {
			if n == "a" {
				return cfg.cmp
			}
			return nil
		}})
		vAssert("dst-reopen-ok", vAnd(err == nil, d2 != nil))
		if d2 != nil {
			vCheckStore("destination-reopened", d2, names, models)
		}
		dec := vDecode(dst.data, int64(len(dst.data)))
		vCheckDecoded("destination-decoded", dec, names, models)
		vAssert("dst-only-live-items", vCountItemWrites(dst) == total)
		vCover("durable-copy")
	}
	vAssert("source-file-written", vAnd(len(f.writes) == 0, len(f.truncs) == 0))
	vAssert("source-file-length", len(f.data) == srcLen)
	vCheckStore("source-unchanged", src, names, models)
	vCover("done")
}

// ------------------------------------------------------------------ C07

const (
	fOpen = iota
	fGetItem
	fGet
	fMin
	fMax
	fVisit
	fSet
	fDelete
	fFlush
	fExist
	fCopyTo
	fRevert
	fNumOps
)

func vH_C07_fault() {
	cfg := vCfgFromParams()
	cfg.file, cfg.cache = true, 0
	pre := vBuildPre(cfg)
	cfg = pre.cfg
	s, f, m := pre.s, pre.f, pre.m
	vAssert("flush1-ok", s.Flush() == nil)
	older := m.clone()
	olderEnd := int64(len(f.data))
	// second durable generation (so that an older root exists in the file)
	op := vChoose("fault-op", 0, fNumOps-1)
	if !vOpAllowed(vParam("faultops"), op) {
		return
	}
	if op == fOpen && vChoose("two-generations", 0, 1) == 1 {
		k, v := vBytes("g2k", 1), vBytes("g2v", 1)
		p := vInt32("g2p")
		vAssume(p >= 0)
		vAssert("g2-set", pre.c.SetItem(&Item{Key: k, Val: v, Priority: p}) == nil)
		m.set(k, v, p)
		vAssert("flush2-ok", s.Flush() == nil)
		vCover("two-generations")
	}
	durable := m.clone()
	_ = older
	_ = olderEnd
	// everything unloaded: a freshly opened store
	s2, err := NewStore(f)
	vAssert("reopen-ok", vAnd(err == nil, s2 != nil))
	s = s2
	c := s.GetCollection("a")
	pre.s, pre.c = s, c
	if op == fFlush || op == fRevert {
		// something to flush: one successful mutation first
		k0, v0 := vBytes("dk", 1), vBytes("dv", 1)
		vAssert("dirtying-set", c.SetItem(&Item{Key: k0, Val: v0, Priority: 3}) == nil)
		m.set(k0, v0, 3)
	}
	before := m.clone()
	key := vKeyArg("fkey", cfg.klen)
	val := vBytes("fval", 1)
	prio := vInt32("fprio")
	vAssume(prio >= 0)
	f.failAt = vChoose("fail-at", 1, vParam("maxfail"))
	if (op == fFlush || op == fCopyTo) && vChoose("torn", 0, 1) == 1 {
		f.torn = true
		f.tornLen = vInt("torn-len")
		vAssume(f.tornLen >= 0)
		vAssume(f.tornLen <= 64)
	}
	f.failed = 0
	var operr error
	hasErr := true
	var opened *Store
	switch op {
	case fOpen:
		vTrace("fault:NewStore")
		opened, operr = NewStore(f)
	case fGetItem:
		vTrace("fault:GetItem")
		_, operr = c.GetItem(key, true)
	case fGet:
		vTrace("fault:Get")
		_, operr = c.Get(key)
	case fMin:
		vTrace("fault:MinItem")
		_, operr = c.MinItem(true)
	case fMax:
		vTrace("fault:MaxItem")
		_, operr = c.MaxItem(true)
	case fVisit:
		vTrace("fault:Visit")
		operr = c.VisitItemsAscend(key, true, func(i *Item) bool { return true })
	case fSet:
		vTrace("fault:SetItem")
		operr = c.SetItem(&Item{Key: key, Val: val, Priority: prio})
	case fDelete:
		vTrace("fault:Delete")
		_, operr = c.Delete(key)
	case fFlush:
		vTrace("fault:Flush")
		operr = s.Flush()
	case fExist:
		vTrace("fault:Exist")
		hasErr = false
		ex := c.Exist(key)
		if f.failed > 0 {
			vAssert("exist-under-fault", ex == (m.find(key) >= 0))
		}
	case fCopyTo:
		vTrace("fault:CopyTo")
		var cp *Store
		dstf := &vFile{}
		if vChoose("fault-on-destination", 0, 1) == 1 {
			// the failing file is the destination of the copy
			vTrace("fault-on-destination")
			dstf.failAt, dstf.torn, dstf.tornLen = f.failAt, f.torn, f.tornLen
			f.failAt, f.torn = 0, false
			cp, operr = s.CopyTo(dstf, 1)
			if dstf.failed == 0 {
				return
			}
			vCover("fault-injected")
			vAssert("error-reported-by-copyto-destination-fault", operr != nil)
			vCheckColl("after-fault", c, before)
			vCover("done")
			return
		}
		cp, operr = s.CopyTo(dstf, 1)
		if operr == nil && f.failed > 0 {
			// reported success although a source-file call failed: at the very
			// least the copy must be right
			vAssert("copyto-success-under-fault-has-store", cp != nil)
			if cp != nil && cp.GetCollection("a") != nil {
				vCheckColl("copyto-under-fault-state", cp.GetCollection("a"), m)
			}
		}
	case fRevert:
		vTrace("fault:FlushRevert")
		operr = s.FlushRevert()
	}
	injected := f.failed > 0
	f.failAt, f.torn = 0, false
	if !injected {
		return // the operation issued fewer file calls than fail-at
	}
	vCover("fault-injected")
	if hasErr {
		if op == fCopyTo {
			vAssert("error-reported-by-copyto", operr != nil)
		} else {
			vAssert("error-reported", operr != nil)
		}
	}
	if op == fOpen {
		if operr == nil && opened != nil {
			// success with older data?
			oc := opened.GetCollection("a")
			vAssert("open-after-fault-coll", oc != nil)
			if oc != nil {
				vCheckColl("open-under-fault-state", oc, durable)
			}
		}
		vCover("done")
		return
	}
	if op == fRevert {
		// after a failed FlushRevert the store must be re-opened; the durable
		// states already in the file must be undamaged
		s3, err := NewStore(f)
		vAssert("revert-fault-reopen", vAnd(err == nil, s3 != nil))
		if s3 != nil {
			c3 := s3.GetCollection("a")
			vAssert("revert-fault-coll", c3 != nil)
			if c3 != nil {
				// the revert failed: the newest flush must still be there
				vCheckColl("durable-after-failed-revert", c3, durable)
			}
		}
		vCover("done")
		return
	}
	// only FlushRevert may truncate, failed call or not
	vAssert("truncate-outside-flushrevert", len(f.truncs) == 0)
	// the failed call changed nothing that is visible
	vCheckColl("after-fault", c, before)
	// durable state undamaged
	s4, err := NewStore(f)
	vAssert("image-reopen-ok", vAnd(err == nil, s4 != nil))
	if s4 != nil && s4.GetCollection("a") != nil {
		vCheckColl("image-after-fault", s4.GetCollection("a"), durable)
	}
	// later operations behave as if the failed call had never been made
	fu := 1
	switch op {
	case fSet, fDelete:
		fu = vChoose("followup", 0, 2)
	case fFlush:
		fu = 3
	}
	switch fu {
	case 1:
		vTrace("followup:SetItem")
		k2, v2 := vBytes("fk2", 1), vBytes("fv2", 1)
		p2 := vInt32("fp2")
		vAssume(p2 >= 0)
		vAssert("followup-set-ok", c.SetItem(&Item{Key: k2, Val: v2, Priority: p2}) == nil)
		m.set(k2, v2, p2)
	case 2:
		vTrace("followup:Delete")
		k2 := vBytes("fk2", 1)
		was, err := c.Delete(k2)
		vAssert("followup-delete-ok", vAnd(err == nil, was == m.del(k2)))
	case 3:
		vTrace("retry-Flush")
		vAssert("retry-flush-ok", s.Flush() == nil)
		s5, err := NewStore(f)
		vAssert("retry-reopen", vAnd(err == nil, s5 != nil))
		if s5 != nil && s5.GetCollection("a") != nil {
			vCheckColl("retry-durable", s5.GetCollection("a"), m)
		}
	}
	free := vFreeNodeSet("followup")
	if c.root != nil {
		vLiveNotFree("followup", c.root.root, free, 0)
	}
	vCheckColl("after-followup", c, m)
	vCover("done")
}
