// Copyright 2013 The Go Authors. All rights reserved.
// Use of this source code is governed by a BSD-style
// license that can be found in the LICENSE file.

package main

// Custom hashtable atop map.
// For use when the key's equivalence relation is not consistent with ==.

// The Go specification doesn't address the atomicity of map operations.
// The FAQ states that an implementation is permitted to crash on
// concurrent map access.

import (
	"go/types"
)

type hashable interface {
	hash(t types.Type) int
	eq(t types.Type, x interface{}) bool
}

type entry struct {
	key   hashable
	value value
	next  *entry
}

// A hashtable atop the built-in map.  Since each bucket contains
// exactly one hash value, there's no need to perform hash-equality
// tests when walking the linked list.  Rehashing is done by the
// underlying map.
type hashmap struct {
	keyType types.Type
	table   map[int]*entry
	length  int // number of entries in map
}

// makeMap returns an empty initialized map of key type kt,
// preallocating space for reserve elements.
func makeMap(kt types.Type, reserve int64) value {
	if usesBuiltinMap(kt) {
		return newOmap()
	}
	return &hashmap{keyType: kt, table: make(map[int]*entry, reserve)}
}

// delete removes the association for key k, if any.
func (m *hashmap) delete(k hashable) {
	if m != nil {
		hash := k.hash(m.keyType)
		head := m.table[hash]
		if head != nil {
			if k.eq(m.keyType, head.key) {
				m.table[hash] = head.next
				m.length--
				return
			}
			prev := head
			for e := head.next; e != nil; e = e.next {
				if k.eq(m.keyType, e.key) {
					prev.next = e.next
					m.length--
					return
				}
				prev = e
			}
		}
	}
}

// lookup returns the value associated with key k, if present, or
// value(nil) otherwise.
func (m *hashmap) lookup(k hashable) value {
	if m != nil {
		hash := k.hash(m.keyType)
		for e := m.table[hash]; e != nil; e = e.next {
			if k.eq(m.keyType, e.key) {
				return e.value
			}
		}
	}
	return nil
}

// insert updates the map to associate key k with value v.  If there
// was already an association for an eq() (though not necessarily ==)
// k, the previous key remains in the map and its associated value is
// updated.
func (m *hashmap) insert(k hashable, v value) {
	hash := k.hash(m.keyType)
	head := m.table[hash]
	for e := head; e != nil; e = e.next {
		if k.eq(m.keyType, e.key) {
			e.value = v
			return
		}
	}
	m.table[hash] = &entry{
		key:   k,
		value: v,
		next:  head,
	}
	m.length++
}

// len returns the number of key/value associations in the map.
func (m *hashmap) len() int {
	if m != nil {
		return m.length
	}
	return 0
}

// entries returns a rangeable map of entries.
func (m *hashmap) entries() map[int]*entry {
	if m != nil {
		return m.table
	}
	return nil
}
