package gkvlite

import (
	"fmt"
	"os"
	"runtime"
	"strings"
	"testing"
)

// TestVReplay re-runs harnesses natively with the inputs recorded in the
// file(s) named by $VERIF_REPLAY (':'-separated).
func TestVReplay(t *testing.T) {
	paths := os.Getenv("VERIF_REPLAY")
	if paths == "" {
		t.Skip("VERIF_REPLAY not set")
	}
	failed := false
	for _, path := range strings.Split(paths, ":") {
		if !vReplayOne(path) {
			failed = true
		}
	}
	if failed {
		t.Fatal("at least one replay reproduced a violation")
	}
}

func vReplayOne(path string) (pass bool) {
	if err := vLoadReplay(path); err != nil {
		fmt.Printf("VREPLAY-FILE %s ERROR %v\n", path, err)
		return false
	}
	h, ok := vHarnesses[vRF.Harness]
	if !ok {
		fmt.Printf("VREPLAY-FILE %s ERROR unknown harness %q\n", path, vRF.Harness)
		return false
	}
	vBaseGoroutines = runtime.NumGoroutine()
	defer func() {
		if r := recover(); r != nil {
			pass = false
			if v, ok := r.(vViolation); ok {
				fmt.Printf("VREPLAY-FILE %s VIOLATION %s\n", path, v.msg)
				return
			}
			fmt.Printf("VREPLAY-VIOLATION panic %v\n", r)
			fmt.Printf("VREPLAY-FILE %s PANIC %v\n", path, r)
			return
		}
		fmt.Printf("VREPLAY-PASS\nVREPLAY-FILE %s PASS\n", path)
	}()
	h()
	return true
}
