package gkvlite

import (
	"fmt"
	"os"
	"runtime"
	"testing"
)

// TestVReplay re-runs one harness natively with the inputs recorded in the
// file named by $VERIF_REPLAY.
func TestVReplay(t *testing.T) {
	path := os.Getenv("VERIF_REPLAY")
	if path == "" {
		t.Skip("VERIF_REPLAY not set")
	}
	if err := vLoadReplay(path); err != nil {
		t.Fatal(err)
	}
	h, ok := vHarnesses[vRF.Harness]
	if !ok {
		t.Fatalf("unknown harness %q", vRF.Harness)
	}
	vBaseGoroutines = runtime.NumGoroutine()
	defer func() {
		if r := recover(); r != nil {
			if v, ok := r.(vViolation); ok {
				t.Fatalf("violation reproduced: %s", v.msg)
			}
			fmt.Printf("VREPLAY-VIOLATION panic %v\n", r)
			t.Fatalf("panic reproduced: %v", r)
		}
		fmt.Println("VREPLAY-PASS")
	}()
	h()
}
