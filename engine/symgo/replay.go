package main

// Counterexample replay: the solver's assignment is written to a JSON file
// and the same harness is compiled natively (ordinary go test) against a
// scratch copy of /repo's working tree; only a violation that reproduces
// there is reported.

import (
	"crypto/sha1"
	"encoding/json"
	"fmt"
	"os"
	"os/exec"
	"path/filepath"
	"regexp"
	"strings"
	"time"
)

type replayFile struct {
	Property string      `json:"property"`
	Harness  string      `json:"harness"`
	Kind     string      `json:"kind"`
	Label    string      `json:"label"`
	Msg      string      `json:"msg,omitempty"`
	Trace    []string    `json:"trace"`
	Params   map[string]int `json:"params"`
	Nondets  []nondetRec `json:"nondets"`
	Chooses  []int64     `json:"chooses"`
}

func writeReplay(prop string, v violation) (string, error) {
	rf := replayFile{Property: prop, Harness: v.Harness, Kind: v.Kind, Label: v.Label, Msg: firstLine(v.Msg),
		Trace: v.Trace, Params: v.Params, Nondets: v.Nondets, Chooses: v.Chooses}
	b, _ := json.MarshalIndent(rf, "", " ")
	h := sha1.Sum(b)
	dir := filepath.Join(verifDir(), "replays")
	if err := os.MkdirAll(dir, 0o755); err != nil {
		return "", err
	}
	name := fmt.Sprintf("%s_%s_%s_%x.json", prop, v.Harness, sanitize(v.Label), h[:4])
	path := filepath.Join(dir, name)
	return path, os.WriteFile(path, b, 0o644)
}

func confirmViolation(prop string, v violation) (path string, confirmed bool, out string) {
	path, err := writeReplay(prop, v)
	if err != nil {
		return "", false, "cannot write replay file: " + err.Error()
	}
	ok, out := nativeReplay(path)
	if !ok && v.Goroutines > 0 && gProgram != nil {
		// the violation depends on a goroutine schedule that cannot be forced
		// on the native build: replay it concretely in the engine instead
		if ok2, out2 := engineConcreteReplay(gProgram, v); ok2 {
			return path, true, out2
		}
	}
	return path, ok, out
}

var gProgram *program

var harnessDecl = regexp.MustCompile(`(?m)^func vH_(\w+)\(\)`)

var randImport = regexp.MustCompile(`(?m)^(\s*)"math/rand"\s*$`)

// nativeReplay returns whether the recorded violation reproduces natively.
func nativeReplay(path string) (bool, string) {
	b, err := os.ReadFile(path)
	if err != nil {
		return false, err.Error()
	}
	var rf replayFile
	if err := json.Unmarshal(b, &rf); err != nil {
		return false, err.Error()
	}
	testTimeout := "90s"
	if rf.Kind == "unwind" || rf.Kind == "deadlock" {
		testTimeout = "20s"
	}
	out, err := nativeRun(path, testTimeout)
	if err != nil {
		return false, err.Error()
	}
	hung := strings.Contains(out, "VREPLAY-TIMEOUT") || strings.Contains(out, "test timed out") || strings.Contains(out, "all goroutines are asleep")
	switch rf.Kind {
	case "assert":
		if strings.Contains(out, "VREPLAY-VIOLATION assert "+rf.Label+"\n") || strings.Contains(out, "VREPLAY-VIOLATION assert "+rf.Label+" ") {
			return true, out
		}
	case "panic":
		if strings.Contains(out, "VREPLAY-VIOLATION panic") {
			return true, out
		}
	case "deadlock", "unwind":
		if hung {
			return true, out
		}
	}
	return false, lastLines(out, 12)
}

// nativeRun compiles the harnesses next to a scratch copy of /repo's working
// tree and runs TestVReplay on the given replay file(s) (':'-separated).
func nativeRun(paths string, testTimeout string) (string, error) {
	repo := repoDir()
	scratch, err := os.MkdirTemp("", "symgo-replay-")
	if err != nil {
		return "", err
	}
	defer os.RemoveAll(scratch)
	srcs, _ := filepath.Glob(filepath.Join(repo, "*.go"))
	for _, f := range srcs {
		base := filepath.Base(f)
		if strings.HasSuffix(base, "_test.go") {
			continue
		}
		c, err := os.ReadFile(f)
		if err != nil {
			return "", err
		}
		c = randImport.ReplaceAll(c, []byte(`${1}rand "`+pkgPath+`/vrand"`))
		if err := os.WriteFile(filepath.Join(scratch, base), c, 0o644); err != nil {
			return "", err
		}
	}
	for _, f := range []string{"go.mod", "go.sum"} {
		if c, err := os.ReadFile(filepath.Join(repo, f)); err == nil {
			os.WriteFile(filepath.Join(scratch, f), c, 0o644)
		}
	}
	os.MkdirAll(filepath.Join(scratch, "vrand"), 0o755)
	os.WriteFile(filepath.Join(scratch, "vrand", "vrand.go"), []byte(vrandSrc), 0o644)
	hs, _ := filepath.Glob(filepath.Join(verifDir(), "harness", "*.go"))
	var reg strings.Builder
	reg.WriteString("package gkvlite\n\nvar vHarnesses = map[string]func(){\n")
	for _, f := range hs {
		base := filepath.Base(f)
		if strings.HasSuffix(base, "_decl.go") {
			continue
		}
		c, _ := os.ReadFile(f)
		os.WriteFile(filepath.Join(scratch, "zz_verif_"+base), c, 0o644)
		for _, m := range harnessDecl.FindAllSubmatch(c, -1) {
			fmt.Fprintf(&reg, "\t%q: vH_%s,\n", m[1], m[1])
		}
	}
	reg.WriteString("}\n")
	os.WriteFile(filepath.Join(scratch, "zz_verif_registry.go"), []byte(reg.String()), 0o644)
	timeout := 150 * time.Second
	cmd := exec.Command("go", "test", "-v", "-vet=off", "-count=1", "-run", "^TestVReplay$", "-timeout", testTimeout, ".")
	cmd.Dir = scratch
	cmd.Env = append(os.Environ(), "VERIF_REPLAY="+paths, "GOFLAGS=-mod=mod", "GOPROXY=off", "GOSUMDB=off", "GOTOOLCHAIN=local")
	done := make(chan struct{})
	var outB []byte
	go func() {
		outB, _ = cmd.CombinedOutput()
		close(done)
	}()
	select {
	case <-done:
	case <-time.After(timeout):
		if cmd.Process != nil {
			cmd.Process.Kill()
		}
		<-done
		outB = append(outB, []byte("\nVREPLAY-TIMEOUT (killed)")...)
	}
	return string(outB), nil
}

// validateSamples: translator validation.  Witness inputs of completed (OK)
// symbolic paths are run natively; the native run must pass as well.
// Returns (agreeing, disagreeing files).
func validateSamples(prop string, samples []violation) (int, []string) {
	var files []string
	for k, v := range samples {
		v.Kind, v.Label = "pass", fmt.Sprintf("sample%d", k)
		p, err := writeReplay(prop+"_sample", v)
		if err == nil {
			files = append(files, p)
		}
	}
	if len(files) == 0 {
		return 0, nil
	}
	out, err := nativeRun(strings.Join(files, ":"), "120s")
	if err != nil {
		return 0, []string{err.Error()}
	}
	agree := 0
	var bad []string
	for _, f := range files {
		switch {
		case strings.Contains(out, "VREPLAY-FILE "+f+" PASS"):
			agree++
			os.Remove(f)
		default:
			bad = append(bad, f)
		}
	}
	if len(bad) > 0 {
		bad = append(bad, lastLines(out, 8))
	}
	return agree, bad
}

func lastLines(s string, n int) string {
	ls := strings.Split(strings.TrimSpace(s), "\n")
	if len(ls) > n {
		ls = ls[len(ls)-n:]
	}
	return strings.Join(ls, " | ")
}

func cmdReplay(args []string) int {
	if len(args) < 1 {
		fmt.Println("usage: symgo replay <file>")
		return 3
	}
	ok, out := nativeReplay(args[0])
	fmt.Println(out)
	if ok {
		fmt.Println("REPRODUCED natively:", args[0])
		return 1
	}
	fmt.Println("not reproduced:", args[0])
	return 0
}

const vrandSrc = `// Package vrand stands in for math/rand during counterexample replay so that
// the values the solver chose for rand.Int31/Int/Intn can be injected.
package vrand

import mrand "math/rand"

// Source, when set, supplies the next value for the named call.
var Source func(name string) (int64, bool)

func Int31() int32 {
	if Source != nil {
		if v, ok := Source("rand.Int31"); ok {
			return int32(v)
		}
	}
	return mrand.Int31()
}

func Int() int {
	if Source != nil {
		if v, ok := Source("rand.Int"); ok {
			return int(v)
		}
	}
	return mrand.Int()
}

func Intn(n int) int {
	if Source != nil {
		if v, ok := Source("rand.Intn"); ok {
			return int(v)
		}
	}
	return mrand.Intn(n)
}
`
