package main

// Environment model: functions outside the interpreted packages.  Every entry
// is part of the trusted base and is listed in the evidence ("stubs").

import (
	"fmt"
	"go/types"
	"sort"
	"strings"
)

type externalFn func(fr *frame, args []value) value

var externals = map[string]externalFn{}

const pkgPath = "github.com/cbehopkins/gkvlite"

func init() {
	for k, v := range map[string]externalFn{
		"bytes.Compare": extBytesCompare,
		"bytes.Equal":   extBytesEqual,
		"sort.Strings":  extSortStrings,

		"fmt.Errorf":   extFmtErrorf,
		"fmt.Sprintf":  extFmtSprintf,
		"fmt.Sprint":   extFmtSprintf,
		"fmt.Printf":   extFmtPrint,
		"fmt.Print":    extFmtPrint,
		"fmt.Println":  extFmtPrint,
		"log.Fatalf":   extLogFatal,
		"log.Fatal":    extLogFatal,
		"log.Printf":   extNop,
		"log.Println":  extNop,
		"strconv.Itoa": func(fr *frame, a []value) value { return fmt.Sprint(fr.i.asInt(a[0])) },

		"(*sync.Mutex).Lock":      extMutexLock,
		"(*sync.Mutex).Unlock":    extMutexUnlock,
		"(*sync.RWMutex).Lock":    extMutexLock,
		"(*sync.RWMutex).Unlock":  extMutexUnlock,
		"(*sync.RWMutex).RLock":   extRWMutexRLock,
		"(*sync.RWMutex).RUnlock": extRWMutexRUnlock,

		"sync/atomic.LoadInt64":   extAtomicLoad,
		"sync/atomic.LoadUint64":  extAtomicLoad,
		"sync/atomic.LoadInt32":   extAtomicLoad,
		"sync/atomic.StoreInt64":  extAtomicStore,
		"sync/atomic.StoreUint64": extAtomicStore,
		"sync/atomic.StoreInt32":  extAtomicStore,
		"sync/atomic.AddInt64":    extAtomicAdd,
		"sync/atomic.AddUint64":   extAtomicAdd,
		"sync/atomic.AddInt32":    extAtomicAdd,

		"math/rand.Int31": extRandInt31,
		"math/rand.Int":   extRandInt,
		"math/rand.Intn":  extRandIntn,

		"reflect.ValueOf":         extReflectValueOf,
		"(reflect.Value).Elem":    extReflectElem,
		"(reflect.Value).IsValid": extReflectIsValid,

		"encoding/json.Marshal":   extJSONMarshal,
		"encoding/json.Unmarshal": extJSONUnmarshal,

		"runtime.Gosched": func(fr *frame, a []value) value { fr.i.sched.yield(fr, "Gosched"); return nil },
	} {
		externals[k] = v
	}
	registerIntrinsics()
}

var stubList = func() []string {
	return nil
}

func stubNames() []string {
	var s []string
	for k := range externals {
		if !strings.HasPrefix(k, pkgPath+".v") {
			s = append(s, k)
		}
	}
	sort.Strings(s)
	return s
}

func extNop(fr *frame, args []value) value { return nil }

// bytes.Compare: branch-free lexicographic term (lengths are concrete).
func extBytesCompare(fr *frame, args []value) value {
	i := fr.i
	a, b := args[0].([]value), args[1].([]value)
	n := len(a)
	if len(b) < n {
		n = len(b)
	}
	tt := i.tt
	var rest *Term
	switch {
	case len(a) < len(b):
		rest = tt.Const(64, ^uint64(0))
	case len(a) > len(b):
		rest = tt.Const(64, 1)
	default:
		rest = tt.Const(64, 0)
	}
	for k := n - 1; k >= 0; k-- {
		ta, _ := i.term(a[k])
		tb, _ := i.term(b[k])
		lt := tt.Bin(opUlt, ta, tb)
		eq := tt.Eq(ta, tb)
		rest = tt.Ite(lt, tt.Const(64, ^uint64(0)), tt.Ite(eq, rest, tt.Const(64, 1)))
	}
	return i.box(rest, types.Int)
}

func extBytesEqual(fr *frame, args []value) value {
	i := fr.i
	a, b := args[0].([]value), args[1].([]value)
	if len(a) != len(b) {
		return false
	}
	r := i.tt.tTrue
	for k := range a {
		ta, _ := i.term(a[k])
		tb, _ := i.term(b[k])
		r = i.tt.And(r, i.tt.Eq(ta, tb))
	}
	return i.box(r, types.Bool)
}

func extSortStrings(fr *frame, args []value) value {
	x := args[0].([]value)
	sort.SliceStable(x, func(a, b int) bool { return x[a].(string) < x[b].(string) })
	return nil
}

// errorValue builds an *errors.errorString so that Error() is interpretable.
func (i *interpreter) errorValue(msg string) value {
	ep := i.P.prog.ImportedPackage("errors")
	t := ep.Type("errorString").Type()
	var cell value = structure{msg}
	return iface{t: types.NewPointer(t), v: &cell}
}

func extFmtErrorf(fr *frame, args []value) value {
	f, _ := args[0].(string)
	return fr.i.errorValue("fmt.Errorf: " + f)
}

func extFmtSprintf(fr *frame, args []value) value {
	f, _ := args[0].(string)
	return "fmt.Sprintf: " + f
}

func extFmtPrint(fr *frame, args []value) value { return tuple{0, iface{}} }

func extLogFatal(fr *frame, args []value) value {
	panic(targetPanic{iface{fr.i.P.runtimeErrorString, "log.Fatal called (process exit)"}})
}

// ---- sync

func extMutexLock(fr *frame, args []value) value {
	i := fr.i
	m := i.mutex(args[0])
	i.sched.yield(fr, "Lock")
	i.sched.block(fr, func() bool { return !m.locked && m.readers == 0 }, "Mutex.Lock")
	m.locked = true
	return nil
}

func extMutexUnlock(fr *frame, args []value) value {
	i := fr.i
	m := i.mutex(args[0])
	if !m.locked {
		panic(targetPanic{iface{i.P.runtimeErrorString, "sync: unlock of unlocked mutex"}})
	}
	m.locked = false
	i.sched.yield(fr, "Unlock")
	return nil
}

func extRWMutexRLock(fr *frame, args []value) value {
	i := fr.i
	m := i.mutex(args[0])
	i.sched.yield(fr, "RLock")
	i.sched.block(fr, func() bool { return !m.locked }, "RWMutex.RLock")
	m.readers++
	return nil
}

func extRWMutexRUnlock(fr *frame, args []value) value {
	i := fr.i
	m := i.mutex(args[0])
	if m.readers <= 0 {
		panic(targetPanic{iface{i.P.runtimeErrorString, "sync: RUnlock of unlocked RWMutex"}})
	}
	m.readers--
	i.sched.yield(fr, "RUnlock")
	return nil
}

func extAtomicLoad(fr *frame, args []value) value {
	fr.i.sched.yield(fr, "atomic.Load")
	return *args[0].(*value)
}

func extAtomicStore(fr *frame, args []value) value {
	fr.i.sched.yield(fr, "atomic.Store")
	*args[0].(*value) = args[1]
	return nil
}

func extAtomicAdd(fr *frame, args []value) value {
	fr.i.sched.yield(fr, "atomic.Add")
	p := args[0].(*value)
	*p = fr.i.binop(tokenADD, nil, *p, args[1])
	return *p
}

// ---- math/rand: arbitrary values under the documented contracts

func extRandInt31(fr *frame, args []value) value {
	i := fr.i
	v := i.fresh("rand.Int31", types.Int32)
	t, _ := i.term(v)
	i.assume(i.tt.Not(i.tt.Bin(opSlt, t, i.tt.Const(32, 0))))
	return v
}

func extRandInt(fr *frame, args []value) value {
	i := fr.i
	v := i.fresh("rand.Int", types.Int)
	t, _ := i.term(v)
	i.assume(i.tt.Not(i.tt.Bin(opSlt, t, i.tt.Const(64, 0))))
	return v
}

func extRandIntn(fr *frame, args []value) value {
	i := fr.i
	if i.P.params["rand_concrete"] == 1 {
		return 0 // boundary-size runs: the shuffle is not the subject (stated in the evidence)
	}
	n, _ := i.term(args[0])
	if i.branchTerm(i.tt.Bin(opSle, n, i.tt.Const(64, 0))) {
		panic(targetPanic{iface{i.P.runtimeErrorString, "invalid argument to Intn"}})
	}
	v := i.fresh("rand.Intn", types.Int)
	t, _ := i.term(v)
	i.assume(i.tt.And(i.tt.Not(i.tt.Bin(opSlt, t, i.tt.Const(64, 0))), i.tt.Bin(opSlt, t, n)))
	return v
}

// ---- reflect: only the validity test of NewStoreEx

type reflVal struct {
	valid bool
	t     types.Type
	v     value
}

func extReflectValueOf(fr *frame, args []value) value {
	x := args[0].(iface)
	if x.t == nil {
		return reflVal{}
	}
	return reflVal{valid: true, t: x.t, v: x.v}
}

func extReflectElem(fr *frame, args []value) value {
	rv := args[0].(reflVal)
	if !rv.valid {
		panic(targetPanic{iface{fr.i.P.runtimeErrorString, "reflect: call of reflect.Value.Elem on zero Value"}})
	}
	if _, ok := rv.t.Underlying().(*types.Pointer); ok {
		p := rv.v.(*value)
		if p == nil {
			return reflVal{}
		}
		return reflVal{valid: true, t: deref(rv.t), v: *p}
	}
	panic(targetPanic{iface{fr.i.P.runtimeErrorString, "reflect: call of reflect.Value.Elem on non-pointer Value"}})
}

func extReflectIsValid(fr *frame, args []value) value {
	return args[0].(reflVal).valid
}
