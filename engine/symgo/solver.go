package main

// Persistent SMT solver process (z3 -in by default) driven over a pipe.
// One scope (push/pop) per explored path; declarations and definitions are
// emitted incrementally by smtPrinter.

import (
	"bufio"
	"fmt"
	"io"
	"os"
	"os/exec"
	"strconv"
	"strings"
	"time"
)

type solverStats struct {
	queries, sat, unsat, unknown int64
	time                         time.Duration
}

type solver struct {
	cmd     *exec.Cmd
	in      io.WriteCloser
	out     *bufio.Reader
	pr      *smtPrinter
	buf     strings.Builder
	stats   solverStats
	name    string
	argv    []string
	log     io.Writer // optional transcript
	timeout int       // ms per query
}

func solverArgv(kind string, timeoutMs int) []string {
	switch kind {
	case "z3-new":
		return []string{"z3-new", "-in", fmt.Sprintf("-t:%d", timeoutMs)}
	case "cvc5":
		return []string{"cvc5", "--incremental", "--lang=smt2", "--produce-models", fmt.Sprintf("--tlimit-per=%d", timeoutMs)}
	default:
		return []string{"z3", "-in", fmt.Sprintf("-t:%d", timeoutMs)}
	}
}

func newSolver(kind string, timeoutMs int) (*solver, error) {
	s := &solver{name: kind, argv: solverArgv(kind, timeoutMs), timeout: timeoutMs}
	if err := s.start(); err != nil {
		return nil, err
	}
	return s, nil
}

func (s *solver) start() error {
	s.cmd = exec.Command(s.argv[0], s.argv[1:]...)
	in, err := s.cmd.StdinPipe()
	if err != nil {
		return err
	}
	out, err := s.cmd.StdoutPipe()
	if err != nil {
		return err
	}
	s.cmd.Stderr = os.Stderr
	if err := s.cmd.Start(); err != nil {
		return err
	}
	s.in, s.out = in, bufio.NewReaderSize(out, 1<<16)
	s.send("(set-option :produce-models true)\n(set-logic QF_BV)\n")
	s.newScope()
	return nil
}

func (s *solver) close() {
	if s.cmd != nil {
		s.in.Close()
		s.cmd.Process.Kill()
		s.cmd.Wait()
		s.cmd = nil
	}
}

func (s *solver) send(txt string) {
	if s.log != nil {
		io.WriteString(s.log, txt)
	}
	io.WriteString(s.in, txt)
}

// newScope discards everything asserted/declared so far and opens a fresh scope.
func (s *solver) newScope() {
	if s.pr != nil {
		s.send("(pop 1)\n")
	}
	s.send("(push 1)\n")
	s.buf.Reset()
	s.pr = &smtPrinter{emitted: make(map[int32]bool, 256), out: &s.buf}
}

func (s *solver) flushDefs() {
	if s.buf.Len() > 0 {
		s.send(s.buf.String())
		s.buf.Reset()
	}
}

// assert adds t to the current scope permanently (for the rest of the path).
func (s *solver) assert(t *Term) {
	r := s.pr.ref(t)
	s.flushDefs()
	s.send("(assert " + r + ")\n")
}

type satResult int

const (
	resUnsat satResult = iota
	resSat
	resUnknown
)

func (r satResult) String() string { return [...]string{"unsat", "sat", "unknown"}[r] }

// check asks whether the current assertions plus extra are satisfiable.
// extra is not retained.  If wantModel and sat, the model is returned.
func (s *solver) check(extra *Term, wantModel bool) (satResult, Model, error) {
	t0 := time.Now()
	defer func() { s.stats.time += time.Since(t0) }()
	s.stats.queries++
	r := s.pr.ref(extra)
	s.flushDefs()
	s.send("(push 1)\n(assert " + r + ")\n(check-sat)\n")
	line, err := s.readLine()
	if err != nil {
		return resUnknown, nil, err
	}
	var res satResult
	switch line {
	case "sat":
		res = resSat
		s.stats.sat++
	case "unsat":
		res = resUnsat
		s.stats.unsat++
	case "unknown", "timeout":
		res = resUnknown
		s.stats.unknown++
	default:
		// (error ...) or anything unexpected: inconclusive, restart to resync
		s.stats.unknown++
		return resUnknown, nil, fmt.Errorf("solver said %q", line)
	}
	var m Model
	if res == resSat && wantModel {
		s.send("(get-model)\n")
		m, err = s.readModel()
		if err != nil {
			return resUnknown, nil, err
		}
	}
	s.send("(pop 1)\n")
	return res, m, nil
}

func (s *solver) readLine() (string, error) {
	for {
		line, err := s.out.ReadString('\n')
		if err != nil {
			return "", fmt.Errorf("solver pipe: %v", err)
		}
		line = strings.TrimSpace(line)
		if line == "" {
			continue
		}
		if s.log != nil {
			io.WriteString(s.log, "; <- "+line+"\n")
		}
		return line, nil
	}
}

// readModel parses the s-expression printed by (get-model):
//
//	( (define-fun x () (_ BitVec 8) #x41) (define-fun b () Bool true) ... )
//
// z3 4.8.12 prints "(model" on old versions; both are accepted.
func (s *solver) readModel() (Model, error) {
	var sb strings.Builder
	depth := 0
	started := false
	for {
		line, err := s.out.ReadString('\n')
		if err != nil {
			return nil, fmt.Errorf("solver pipe (model): %v", err)
		}
		if strings.HasPrefix(strings.TrimSpace(line), "(error") {
			return nil, fmt.Errorf("solver: %s", strings.TrimSpace(line))
		}
		sb.WriteString(line)
		for _, ch := range line {
			if ch == '(' {
				depth++
				started = true
			} else if ch == ')' {
				depth--
			}
		}
		if started && depth == 0 {
			break
		}
	}
	return parseModel(sb.String())
}

func parseModel(txt string) (Model, error) {
	m := Model{}
	toks := tokenize(txt)
	// scan for: define-fun NAME ( ) SORT VALUE
	for i := 0; i < len(toks); i++ {
		if toks[i] != "define-fun" {
			continue
		}
		if i+3 >= len(toks) {
			break
		}
		name := toks[i+1]
		// skip "(" ")" of the argument list
		j := i + 2
		if toks[j] != "(" || toks[j+1] != ")" {
			continue // a function with arguments: not ours
		}
		j += 2
		// sort: either Bool or ( _ BitVec n )
		if toks[j] == "(" {
			for toks[j] != ")" {
				j++
			}
			j++
		} else {
			j++
		}
		if j >= len(toks) {
			break
		}
		v, ok := parseValue(toks, j)
		if !ok {
			if isDefName(name) {
				continue // one of our own define-fun macros echoed back
			}
			return nil, fmt.Errorf("cannot parse model value for %s near %q", name, toks[j])
		}
		m[name] = v
	}
	return m, nil
}

func parseValue(toks []string, j int) (uint64, bool) {
	tok := toks[j]
	switch {
	case tok == "true":
		return 1, true
	case tok == "false":
		return 0, true
	case strings.HasPrefix(tok, "#x"):
		v, err := strconv.ParseUint(tok[2:], 16, 64)
		return v, err == nil
	case strings.HasPrefix(tok, "#b"):
		v, err := strconv.ParseUint(tok[2:], 2, 64)
		return v, err == nil
	case tok == "(" && j+2 < len(toks) && toks[j+1] == "_" && strings.HasPrefix(toks[j+2], "bv"):
		v, err := strconv.ParseUint(toks[j+2][2:], 10, 64)
		return v, err == nil
	}
	return 0, false
}

func tokenize(s string) []string {
	var toks []string
	cur := strings.Builder{}
	flush := func() {
		if cur.Len() > 0 {
			toks = append(toks, cur.String())
			cur.Reset()
		}
	}
	for _, ch := range s {
		switch ch {
		case '(', ')':
			flush()
			toks = append(toks, string(ch))
		case ' ', '\n', '\t', '\r':
			flush()
		default:
			cur.WriteRune(ch)
		}
	}
	flush()
	return toks
}

func isDefName(n string) bool {
	if len(n) < 2 || n[0] != 't' {
		return false
	}
	for _, c := range n[1:] {
		if c < '0' || c > '9' {
			return false
		}
	}
	return true
}
