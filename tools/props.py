"""Per-property run tables (bounds) for gen.py."""

TECH = "symbolic execution of go/ssa + SMT (z3, QF_BV), bounded"
NOTE = ("trusted: go/ssa semantics, engine instruction semantics (x/tools interp model), z3 4.8.12, "
        "environment stubs listed in the evidence, pre-state generator reachability argument (DESIGN 3.3); "
        "bounds per run in bounds.json")

NOT_APPLICABLE = []

ALL = ["C%02d" % i for i in range(1, 20)]


def register(prop, run, KERNELS, C01_COVERS):
    step_txt = ("Bounded symbolic model checking of the real SSA of gkvlite: inputs (key/value/priority bytes, "
                "random numbers, targets) are SMT variables, structural choices (tree shape, cache state, operation) "
                "are enumerated as paths, every data-dependent branch is decided by z3; each completed path covers all "
                "inputs satisfying its path condition. ")

    prop("C06",
         quick=[run("C06_step", covers=["done", "delivered", "empty-range", "stopped-early"], nmax=2, cache=1, cmps=1, evictin=1),
                run("C06_step", covers=["done", "delivered", "stopped-early"], nmin=2, nmax=2, cache=0, store=0, cmps=3, viasnap=1)],
         thorough=[run("C06_step", covers=["done", "delivered", "empty-range", "stopped-early"], nmax=2, cache=1, cmps=3, evictin=1, viasnap=1, budget=1800),
                   run("C06_step", covers=["done", "delivered", "stopped-early"], nmin=3, nmax=3, cache=2, cmps=1, evictin=0, vlenmin=1, budget=1800),
                   run("C06_step", covers=["done", "delivered", "stopped-early"], nmin=4, nmax=4, cache=0, store=0, cmps=2, budget=1800)],
         outside=["collections with more than 3 (quick 2..3) / 4 items", "comparators other than bytes.Compare, its reverse and reversed-string order", "IterateAscend/IterateDescend are covered under C18"],
         text=step_txt + "Oracle: the model's items filtered by the target, ordered by the comparator, cut at the stop position, depth = the depth assigned by the pre-state constructor.",
         note=NOTE, technique=TECH, design_ref="DESIGN.md §4 C06")

    prop("C09",
         quick=[run("C09_readonly", covers=["done"], nmax=1, cache=1),
                run("C09_readonly", covers=["done"], nmin=2, nmax=2, cache=2, budget=900),
                run("C09_append", covers=["done", "flushed"], nmax=1, cache=1, ops=2),
                run("C09_append", covers=["done", "flushed", "flush-retried"], nmin=1, nmax=2, cache=0, vlenmin=1, ops=1, flushfault=1, maxfail=8)],
         thorough=[run("C09_readonly", covers=["done"], nmax=2, cache=1, budget=1800),
                   run("C09_readonly", covers=["done"], nmin=3, nmax=3, cache=2, vlenmin=1, tailjunk=0, budget=1800),
                   run("C09_append", covers=["done", "flushed"], nmin=2, nmax=2, cache=2, ops=2, vlenmin=1, budget=1800)],
         outside=["tools/view (uses os.File, not encoded)", "FlushRevert truncation is checked under C08", "histories longer than ops steps after the constructed pre-state"],
         text=step_txt + "Monitors on the harness StoreFile: every WriteAt offset >= end of the last durable root record, no truncate, durable prefix byte-for-byte unchanged; read-only entry points issue zero writes/truncates.",
         note=NOTE, technique=TECH, design_ref="DESIGN.md §4 C09")

    inv_cov = ["done", "insert-new", "delete-hit"]
    prop("C13",
         quick=[run("C13_step", covers=inv_cov + ["decoded", "reopened"], nmax=2, cache=1, decode=1),
                run("C13_step", covers=inv_cov, nmin=3, nmax=3, store=0, cache=0, variant=1, cmps=2),
                run("C13_step", covers=inv_cov + ["canonical-checked"], nmax=3, store=0, cache=0, variant=2),
                run("C13_step", covers=inv_cov + ["canonical-checked"], nmin=1, nmax=2, store=1, cache=2, variant=2, vlenmin=0),
                run("C13_step", covers=["done", "canonical-checked"], nmin=3, nmax=3, store=0, cache=0, variant=2, partial=1, vlenmin=1)],
         thorough=[run("C13_step", covers=inv_cov + ["decoded", "reopened"], nmax=2, cache=1, decode=1, klen=2, vlen=1, budget=1800),
                   run("C13_step", covers=inv_cov + ["decoded"], nmin=3, nmax=3, cache=2, decode=1, budget=1800),
                   run("C13_step", covers=inv_cov, nmin=4, nmax=4, store=0, cache=0, variant=1, budget=1800),
                   run("C13_step", covers=inv_cov + ["canonical-checked"], nmin=3, nmax=3, store=1, cache=2, variant=2, vlenmin=1, budget=1800),
                   run("C13_step", covers=inv_cov + ["canonical-checked"], nmax=2, store=0, cache=0, variant=2, ops=2, budget=1800)],
         outside=["trees with more than 3 / 4 items before the step(s)", "more than 2 consecutive operations from a constructed state"],
         text=step_txt + "After the step every node is walked directly: search order, exact numNodes/numBytes; heap order when no priority is lowered; with distinct priorities the reported depth of every item equals the canonical-depth formula over keys and priorities (ranking decided by the solver); the independent decoder re-checks persisted aggregates and children-before-parents.",
         note=NOTE, technique=TECH, design_ref="DESIGN.md §4 C13")

    prop("C14",
         quick=KERNELS + [run("C14_fmt", covers=["done"], nmax=2, cache=1),
                          run("C14_fmt", covers=["done", "copied"], nmax=2, cache=2, copyto=1),
                          run("C14_fmt", covers=["done", "flush-retried"], nmin=1, nmax=2, cache=0, vlenmin=1, flushfault=1, maxfail=8)],
         thorough=KERNELS + [run("C14_fmt", covers=["done"], nmax=2, cache=1, klen=2, vlen=1, budget=1800),
                             run("C14_fmt", covers=["done"], nmin=3, nmax=3, cache=2, budget=1800),
                             run("C14_fmt", covers=["done", "copied"], nmax=2, cache=2, copyto=1, klen=2, budget=1800)],
         outside=["collection names other than a, b", "files with more than 2 collections"],
         text="Full-width kernel proofs (all 2^32/2^64 field values) of the item-header, ploc and node-record encoders/decoders against an independent big-endian byte spec; plus bounded symbolic model checking that files written by Flush/CopyTo from every constructed state decode, with an independent decoder sharing no code with gkvlite, to exactly the model.",
         note=NOTE, technique="symbolic execution of go/ssa + SMT (z3, QF_BV): full-width kernels + bounded state step", design_ref="DESIGN.md §4 C14")

    prop("C19",
         quick=[run("C19_open", covers=["done"], nmax=3),
                run("C19_keyonly", covers=["done", "some-reads"], nmax=2, preop=0),
                run("C19_keyonly", covers=["done", "some-reads"], nmax=1, preop=1, withcb=1),
                run("C19_keyonly", covers=["done", "some-reads"], nmin=3, nmax=3, preop=0, onlyop=8, vlenmin=1),
                run("C19_race", covers=["done", "preempted"], nmin=1, nmax=1, vlenmin=1, preemptions=1)],
         thorough=[run("C19_open", covers=["done"], nmax=4, klen=1, vlen=1, budget=1800),
                   run("C19_keyonly", covers=["done", "some-reads"], nmax=2, preop=1, budget=1800),
                   run("C19_keyonly", covers=["done", "some-reads"], nmin=3, nmax=3, preop=0, budget=1800),
                   run("C19_keyonly", covers=["done", "some-reads"], nmin=2, nmax=2, preop=1, withcb=1, vlenmin=1, budget=1800),
                   run("C19_race", covers=["done", "preempted"], nmin=1, nmax=2, vlenmin=1, preemptions=2, budget=1800)],
         outside=["files holding more than 3 / 4 items", "values longer than 2 bytes"],
         text=step_txt + "The harness StoreFile logs every read; the independent decoder supplies the byte ranges of every value and of the root record; assertion: opening reads only the root record (at most 2 reads, none below it), key-only operations issue no read intersecting any value range.",
         note=NOTE, technique=TECH, design_ref="DESIGN.md §4 C19")

    hist_txt = ("Bounded symbolic model checking of the real SSA of gkvlite over API histories from the empty store: the operation "
                "sequence is enumerated (every sequence of the listed operations up to K steps), item keys/values/priorities are SMT "
                "variables so the solver decides which nodes are shared, copied or marked; after every step every open handle is re-read "
                "in full and compared with its model. ")
    HBASE = dict(nmin=0, nmax=0)

    # op bit numbers (harness/hist.go): Set0 Delete1 Flush2 Evict3 Snapshot4 SnapOfSnap5 CloseSnap6 RemoveColl7
    # SetCollExisting8 SetCollNew9 CloseStore10 Churn11 PinnedVisit12 Reopen13 GetRelease14 SnapRevert15
    def mask(*bits):
        return sum(1 << b for b in bits)

    prop("C02",
         quick=[run("C02_step", covers=["done"], nmax=2, cache=1, preop=1),
                run("C02_step", covers=["done", "trailing-unflushed", "second-generation"], nmax=1, cache=1, ncolls=2, trailing=1, preop=0, secondgen=1, budget=900),
                run("C02_step", covers=["done", "flush-retried"], nmin=1, nmax=2, cache=0, vlenmin=1, preop=1, flushfault=1, maxfail=8)],
         thorough=[run("C02_step", covers=["done"], nmax=2, cache=1, preop=1, klen=2, budget=1800),
                   run("C02_step", covers=["done"], nmin=3, nmax=3, cache=2, preop=1, budget=1800),
                   run("C02_step", covers=["done", "trailing-unflushed", "second-generation"], nmax=2, cache=2, ncolls=2, trailing=1, preop=0, secondgen=1, budget=1800)],
         outside=["more than 2 collections; names other than a, b, c", "more than 2 unflushed trailing operations", "trees with more than 3 items at the flush"],
         text=step_txt + "Flush from every constructed state (every dirty/persisted frontier of every shape), then re-open the same file in a new Store: names, keys, values, priorities and totals must equal the model at the flush, whatever unflushed operations (mutations, SetCollection, RemoveCollection) followed; a second generation (mutate the re-opened store, flush, re-open) is checked the same way.",
         note=NOTE, technique=TECH, design_ref="DESIGN.md §4 C02")

    prop("C03",
         quick=[run("C03_torn", covers=["done", "crash-inside-root-record", "crash-inside-data", "recovered-last-flush", "continued"], prior=1, inflight=1, vlen=1),
                run("C03_junk", covers=["done", "recovered-last-flush", "continued"], prior=1, vlen=1, junkmin=0, junkmax=24),
                run("C03_accept", covers=["done", "accepted", "rejected"], junkmax=1)],
         thorough=[run("C03_accept", covers=["done", "accepted", "rejected"], junkmax=2, budget=1800),
                   run("C03_torn", covers=["done", "crash-inside-root-record", "crash-inside-data", "recovered-last-flush", "continued"], prior=2, inflight=1, vlen=1, budget=1800),
                   run("C03_torn", covers=["done", "crash-inside-root-record"], prior=1, inflight=1, vlen=7, budget=1800),
                   run("C03_junk", covers=["done", "recovered-last-flush", "continued"], prior=1, vlen=1, junkmin=25, junkmax=30, budget=1800)],
         outside=["values of 8 or more bytes (long enough, with the priority field, to spell both end markers and a consistent trailer: the adversarial value the property excludes)", "junk tails of 46 bytes or more (a complete self-consistent root record fits)", "media faults that reorder or alter already written bytes", "more than 2 prior flushes / 2 collections"],
         text="Bounded symbolic model checking of the real SSA: the crash image is rebuilt from the harness file's write log at EVERY write boundary and EVERY byte offset of the write in flight (one path each), with key/value/priority bytes symbolic, so whether uncommitted bytes can be mistaken for a root record is decided by the solver; a second harness appends a fully symbolic junk tail (0..24 / 0..45 bytes) to a durable prefix. NewStore on the image must yield exactly the last completely written flush (or empty / the documented no-roots error), and a further mutation+Flush on the recovered store must be durable.",
         note=NOTE, technique=TECH, design_ref="DESIGN.md §4 C03")

    prop("C04",
         quick=[run("C04_hist", covers=["done", "had-snapshot"], store=0, k=4, snaps=2, opmask=mask(0, 1, 4, 5, 6)),
                run("C04_hist", covers=["done", "had-snapshot"], store=1, k=3, snaps=2, opmask=mask(0, 1, 2, 3, 4, 6, 7, 8, 9, 10, 15, 16)),
                run("C04_hist", covers=["done", "had-snapshot"], store=0, k=4, snaps=2, init=0, opmask=mask(0, 4, 6, 10))],
         thorough=[run("C04_hist", covers=["done", "had-snapshot"], store=1, k=5, snaps=2, opmask=mask(0, 1, 2, 3, 4, 5, 6), budget=1800),
                   run("C04_hist", covers=["done", "had-snapshot"], store=0, k=5, snaps=2, init=0, opmask=mask(0, 4, 6, 10), budget=1800),
                   run("C04_hist", covers=["done", "had-snapshot"], store=1, k=4, snaps=2, opmask=mask(0, 1, 2, 3, 4, 5, 6, 7, 8, 10, 15, 16), budget=1800)],
         outside=["histories longer than K = 4 (quick) / 5 (thorough) steps", "more than 2 / 3 snapshots, more than collections a, b", "FlushRevert on the original while snapshots are open (documented as unsupported)", "1-byte keys and values"],
         text=hist_txt + "Operations: Set, Delete, Flush, Evict, Snapshot (of the store or of a snapshot), close a snapshot, snapshot.FlushRevert, RemoveCollection, SetCollection on an existing name, Store.Close. Snapshots must keep reading the contents at their creation, must refuse Set/Delete/Flush, and snapshot-side operations must not write to the file.",
         note=NOTE, technique=TECH, design_ref="DESIGN.md §4 C04")

    prop("C10",
         quick=[run("C10_hist", covers=["done"], store=0, k=3, snaps=1, opmask=mask(0, 1, 4, 6, 7, 8, 10, 11, 12)),
                run("C10_hist", covers=["done"], store=0, k=3, snaps=1, init=1, opmask=mask(0, 4, 6, 12))],
         thorough=[run("C10_hist", covers=["done"], store=0, k=4, snaps=1, opmask=mask(0, 1, 4, 6, 7, 8, 10, 11, 12), budget=1800),
                   run("C10_hist", covers=["done"], store=1, k=4, snaps=2, opmask=mask(0, 1, 2, 3, 4, 6, 8, 12), budget=1800)],
         outside=["histories longer than K = 3..4 steps", "more than two stores sharing the free lists"],
         text=hist_txt + "Two stores share the process-wide free lists (the package initialiser is executed by the engine on every path). After every step, besides re-reading all handles, the harness inspects the heap directly: no node reachable from a live root or pinned version is on the node free list, no node / nodeLoc / rootNodeLoc is on a free list twice; then unrelated allocation in the other store forces reuse of anything freed and everything is read again.",
         note=NOTE, technique=TECH, design_ref="DESIGN.md §4 C10")

    prop("C12",
         quick=[run("C12_hist", covers=["done", "final-reopen"], store=1, k=3, opmask=mask(0, 1, 2, 7, 8, 9, 13), final_reopen=1),
                run("C12_hist", covers=["done"], store=0, k=4, opmask=mask(0, 7, 8, 9), final_reopen=0),
                run("C12_hist", covers=["done", "final-reopen"], store=1, k=3, opmask=mask(0, 2, 7, 9), final_reopen=1, emptyname=1),
                run("C12_cmp", covers=["done"], store=0)],
         thorough=[run("C12_hist", covers=["done", "final-reopen"], store=1, k=4, opmask=mask(0, 1, 2, 7, 8, 9, 13), final_reopen=1, budget=1800),
                   run("C12_hist", covers=["done", "final-reopen"], store=1, k=4, opmask=mask(0, 2, 7, 9), final_reopen=1, emptyname=1, budget=1800),
                   run("C12_hist", covers=["done"], store=0, k=5, opmask=mask(0, 7, 8, 9), final_reopen=0, budget=1800),
                   run("C12_cmp", covers=["done"], store=1)],
         outside=["names other than a, b", "histories longer than K = 3..5 steps"],
         text=hist_txt + "Operations: SetCollection on new and existing names, RemoveCollection, Set/Delete through the handles returned, Flush, re-open. GetCollectionNames must be the sorted model name set, contents of every collection must equal its model, and after a final re-open only flushed changes are visible.",
         note=NOTE, technique=TECH, design_ref="DESIGN.md §4 C12")

    prop("C15",
         quick=[run("C15_hist", covers=["done"], store=1, k=3, snaps=1, readback=1, opmask=mask(0, 1, 2, 3, 4, 6, 7, 13, 14)),
                run("C15_hist", covers=["done"], store=0, k=3, snaps=1, readback=1, opmask=mask(0, 1, 4, 6, 8, 10, 12, 14)),
                run("C15_hist", covers=["done"], store=1, k=3, snaps=1, readback=1, init=0, opmask=mask(0, 2, 13, 17)),
                run("C15_get", store=1)],
         thorough=[run("C15_get", store=1),
                   run("C15_hist", covers=["done"], store=1, k=4, snaps=1, readback=1, opmask=mask(0, 1, 2, 3, 4, 6, 7, 13, 14), budget=1800),
                   run("C15_hist", covers=["done"], store=1, k=4, snaps=1, readback=1, init=0, opmask=mask(0, 1, 2, 13, 17), budget=1800),
                   run("C15_hist", covers=["done"], store=0, k=4, snaps=2, readback=1, opmask=mask(0, 1, 4, 5, 6, 8, 12, 14), budget=1800)],
         outside=["histories longer than K = 3..4 steps", "more than collections a, b"],
         text=hist_txt + "ItemAlloc/ItemAddRef/ItemDecRef callbacks keep a count per *Item: no count may drop below zero, every item handed to the caller or cached in an open handle must have a positive count, and after closing the store and all snapshots every count must be back to the caller's own references.",
         note=NOTE, technique=TECH, design_ref="DESIGN.md §4 C15")

    prop("C07",
         quick=[run("C07_fault", covers=["done", "fault-injected", "two-generations"], nmax=2, cache=0, vlenmin=1, faultops=4095, maxfail=6),
                run("C07_fault", covers=["done", "fault-injected"], nmin=3, nmax=3, cache=0, vlenmin=1, faultops=192, maxfail=8)],
         thorough=[run("C07_fault", covers=["done", "fault-injected", "two-generations"], nmax=2, cache=0, vlenmin=1, faultops=4095, maxfail=10, klen=2, budget=1800),
                   run("C07_fault", covers=["done", "fault-injected"], nmin=3, nmax=3, cache=0, vlenmin=1, faultops=4095, maxfail=10, budget=1800),
                   run("C07_fault", covers=["done", "fault-injected"], nmin=4, nmax=4, cache=0, vlenmin=1, faultops=192, maxfail=12, budget=1800)],
         outside=["more than one injected failure per history", "trees with more than 3 (quick: Set/Delete only at 3) / 4 items", "failures of Stat/Truncate other than at open / FlushRevert"],
         text=step_txt + "From a freshly re-opened store (everything unloaded) the k-th StoreFile call of one API call fails, k enumerated over all calls; a failing WriteAt first writes a prefix whose length is a symbolic integer. Assertions: an error is returned, no panic, the visible contents are unchanged, the file image re-opens to the last durable state, a follow-up mutation / retried Flush behaves as if the failed call had never been made, and no live node is on a free list afterwards.",
         note=NOTE, technique=TECH, design_ref="DESIGN.md §4 C07")

    prop("C08",
         quick=[run("C08_revert", covers=["done", "reverted-to-empty", "reverted-to-flush"], store=1, flushes=2, bigval=1, lean=1, cmps=2, unwind_violation=1, step_budget=400000),
                run("C08_revert", covers=["done", "reverted-to-empty", "continued"], store=1, flushes=1, bigval=0, lean=0, unwind_violation=1, step_budget=400000),
                run("C08_revert", covers=["done", "reverted-to-flush"], store=1, flushes=3, bigval=0, lean=1, rootsonly=1, cmps=2, unwind_violation=1, step_budget=800000),
                run("C08_revert", covers=["memonly"], store=0, flushes=0, bigval=0, lean=0, unwind_violation=1)],
         thorough=[run("C08_revert", covers=["done", "reverted-to-empty", "reverted-to-flush", "continued"], store=1, flushes=2, bigval=0, lean=0, unwind_violation=1, step_budget=400000, budget=1800),
                   run("C08_revert", covers=["done", "reverted-to-empty", "reverted-to-flush"], store=1, flushes=3, bigval=1, lean=1, cmps=2, unwind_violation=1, step_budget=800000, budget=1800),
                   run("C08_revert", covers=["done", "reverted-to-flush"], store=1, flushes=3, bigval=0, lean=1, rootsonly=1, unwind_violation=1, step_budget=800000, budget=1800),
                   run("C08_revert", covers=["memonly"], store=0, flushes=0, bigval=0, lean=0, unwind_violation=1)],
         outside=["more than 2 (quick) / 3 (thorough) flushes before the reverts", "collections other than a", "1-byte keys; values of 1 byte, or 12 symbolic bytes (long enough to spell the doubled end marker) for the first item of the newest flush"],
         text="Bounded symbolic model checking of the real SSA: histories with f flushes of symbolic data (optionally across a re-open, optionally with an unflushed change pending, set only or also written with Collection.Write) followed by r = 1..f+1 consecutive FlushReverts. Termination is checked with a code-derived step cap (each scan iteration strictly decreases Store.size): exceeding it is reported as the violation and confirmed natively under a watchdog. State, file length and a re-open must match the model's flush stack after each revert; new flushes after a revert must be durable; memory-only stores must reject the call. A 12-byte symbolic value lets the solver try to fool the backward scan with look-alike end markers.",
         note=NOTE, technique=TECH, design_ref="DESIGN.md §4 C08")

    prop("C11",
         quick=[run("C11_copyto", covers=["done", "durable-copy"], nmax=2, cache=2, ncolls=1),
                run("C11_copyto", covers=["done", "durable-copy"], nmax=1, cache=1, ncolls=2)],
         thorough=[run("C11_copyto", covers=["done", "durable-copy"], nmax=2, cache=2, ncolls=2, budget=1800),
                   run("C11_copyto", covers=["done", "durable-copy"], nmin=3, nmax=3, cache=0, ncolls=1, vlenmin=1, budget=1800)],
         outside=["sources with more than 2 collections or more than 3 items per collection", "flushEvery values other than -1, 0, 1, 2, total+1"],
         text=step_txt + "CopyTo from a writable store, a snapshot or a freshly re-opened file (custom comparator included), every flushEvery in {-1,0,1,2,total+1}: the destination must hold exactly the model; with flushEvery > 0 the destination file must re-open and independently decode to the same state and contain exactly one item record per live item; the source contents and the source file (no write, no truncate, same length) must be unchanged.",
         note=NOTE, technique=TECH, design_ref="DESIGN.md §4 C11")

    prop("C16",
         quick=[run("C16_enum", covers=["done", "empty"], nmax=4, store=0, cache=0, cmps=2),
                run("C16_hist", covers=["done", "enumerated"], k=4),
                run("C16_boundary", covers=["done"], nmin=1023, nmax=1026, rand_concrete=1, step_budget=60000000, budget=900,
                    note="engine-executed boundary sizes with concrete keys: not a solver claim over contents")],
         thorough=[run("C16_enum", covers=["done", "empty"], nmax=5, store=0, cache=0, cmps=2, budget=1800),
                   run("C16_hist", covers=["done", "enumerated"], k=5, budget=1800),
                   run("C16_boundary", covers=["done"], nmin=1023, nmax=1026, rand_concrete=1, step_budget=60000000, budget=1800,
                       note="engine-executed boundary sizes with concrete keys: not a solver claim over contents"),
                   run("C16_boundary", covers=["done"], nmin=2047, nmax=2050, rand_concrete=1, step_budget=120000000, budget=1800,
                       note="engine-executed boundary sizes with concrete keys: not a solver claim over contents"),
                   run("C16_boundary", covers=["done"], nmin=3071, nmax=3074, rand_concrete=1, step_budget=200000000, budget=1800,
                       note="engine-executed boundary sizes with concrete keys: not a solver claim over contents")],
         outside=["symbolic contents for collections larger than 4..6 items (lenBlock >= 2 needs n > 1024: those sizes are executed with concrete keys, the block shuffle fixed to the identity)", "sizes other than 0..6 and 1023..1026, 2047..2050, 3071..3074"],
         text=step_txt + "Len() must equal n; VisitItemsAscendBlockEx (block order = every permutation, enumerated) and VisitItemsRandom (rand.Intn symbolic) must present each key exactly once (multiset equality decided by the solver over symbolic keys). Sizes around 1024/2048/3072 are executed by the same engine on directly built trees with concrete keys.",
         note=NOTE, technique=TECH, design_ref="DESIGN.md §4 C16")

    prop("C17",
         quick=[run("C17_rel", covers=["done", "reopened"], k=2, vlen=2, allsubsets=0)],
         thorough=[run("C17_rel", covers=["done", "reopened"], k=3, vlen=2, allsubsets=0, budget=1800),
                   run("C17_rel", covers=["done", "reopened"], k=2, vlen=1, allsubsets=1, budget=1800)],
         outside=["tools/slab (imports go-slab; not encoded)", "histories longer than K = 2..3 steps", "callback subsets other than {all, each single callback} in the quick tier (all 255 non-empty subsets in the thorough tier)"],
         text="Relational (self-composition) bounded symbolic model checking: the same symbolic operation sequence is applied to two stores, one with a subset of behaviourally neutral callbacks (custom ItemAlloc, ItemValLength, chunked ItemValWrite/ItemValRead, identity BeforeItemWrite/AfterItemRead, KeyCompareForCollection, no-op ref callbacks); every result must be pairwise equal, the two flushed files must be byte-for-byte equal, and the file must decode independently to the model.",
         note=NOTE, technique=TECH, design_ref="DESIGN.md §4 C17")

    prop("C18",
         quick=[run("C18_iter", covers=["done", "closed", "exhausted"], nmax=2, store=0, cache=0, preemptions=1),
                run("C18_iter", covers=["done", "closed"], nmin=1, nmax=1, store=0, cache=0, preemptions=1, itermut=1),
                run("C18_iter", covers=["done", "closed", "iterated-under-fault"], nmin=2, nmax=2, store=1, cache=2, vlenmin=1, preemptions=0, iterfault=1),
                run("C18_reentrant", covers=["done"], nmin=1, nmax=2, store=1, cache=2)],
         thorough=[run("C18_iter", covers=["done", "closed", "exhausted"], nmax=3, store=0, cache=0, preemptions=2, budget=1800),
                   run("C18_iter", covers=["done", "closed", "exhausted"], nmin=1, nmax=1, store=1, cache=2, preemptions=1, itermut=1, vlenmin=1, budget=1800),
                   run("C18_reentrant", covers=["done"], nmin=1, nmax=3, store=1, cache=2, budget=1800)],
         outside=["more than 2 / 3 items", "more than 1 / 2 pre-emptive context switches per schedule (switches at blocking channel operations are free)", "weak-memory behaviours (sequential consistency assumed)"],
         text="Bounded symbolic model checking with a controlled scheduler: the iterator's producer goroutine and the consumer are interpreted goroutines, every channel operation is a scheduling decision enumerated like any other path decision; the consumer performs every sequence of Next/Close calls up to n+2. After Close or exhaustion Next must be false, the producer must have exited (not merely be blocked), the pinned version must be released, and no schedule may deadlock. Re-entrant visitor callbacks (reads, mutations, Snapshot, Flush, Evict inside a visit) must complete without self-deadlock on the modelled mutexes and see the pinned version.",
         note=NOTE, technique="symbolic execution of go/ssa + SMT with an enumerated scheduler (context-bounded)", design_ref="DESIGN.md §4 C18")

    prop("C05",
         quick=[run("C05_conc", covers=["done", "flushed", "preempted"], initial=1, mutations=1, flusher=1, preemptions=1, nkeys=2, evict=0, dirty=0, maporder=0, budget=900)],
         thorough=[run("C05_conc", covers=["done", "flushed", "preempted"], initial=1, mutations=1, flusher=1, preemptions=1, nkeys=2, evict=1, dirty=1, maporder=0, budget=1800),
                   run("C05_conc", covers=["done", "flushed", "preempted"], initial=1, mutations=2, flusher=1, preemptions=1, nkeys=2, evict=0, dirty=0, maporder=2, budget=3000),
                   run("C05_conc", covers=["done", "flushed", "preempted"], initial=1, mutations=1, flusher=1, preemptions=1, nkeys=2, evict=0, dirty=0, maporder=0, reader2=1, budget=1800)],
         outside=["weak-memory behaviours: sequential consistency is assumed (the code has deliberate unsynchronised accesses, nodeMutex = false)", "more than 1 (quick) / 2 pre-emptive context switches per schedule; switches at blocking points are free", "pre-emption only at mutex, atomic, channel, StoreFile-call and visitor-callback boundaries, not at every memory access", "one reader performing one operation; at most 2 mutations; concrete keys a..c (values symbolic)"],
         text="Bounded symbolic model checking with an enumerated scheduler: mutator, flusher and reader are interpreted goroutines over one harness StoreFile; every mutex operation, atomic, StoreFile call and visitor callback is a scheduling decision, enumerated exhaustively up to the pre-emption bound. Each read result must equal the contents of one version whose validity interval intersects the call interval (a visit is compared as a whole sequence), no schedule may panic or deadlock, the mutator's final state must be the sequential result, and the file written by the concurrent Flush must re-open to per-collection versions that were current during the Flush, a not later than b.",
         note=NOTE + "; sequential consistency; schedule-dependent counterexamples are replayed concretely in the engine when the native build cannot be forced onto the schedule",
         technique="symbolic execution of go/ssa + SMT with an enumerated scheduler (context-bounded)", design_ref="DESIGN.md §4 C05")

    claimed = {"C01", "C02", "C05", "C03", "C04", "C06", "C07", "C08", "C09", "C10", "C11", "C12", "C13", "C14", "C15", "C16", "C17", "C18", "C19"}
    for pid in ALL:
        if pid not in claimed:
            NOT_APPLICABLE.append({"property_id": pid, "reason": "check not built yet in this session (interim state; see DESIGN.md build order)"})
