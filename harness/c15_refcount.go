package gkvlite

// C15: item reference counting through the StoreCallbacks.

type vRefCounts struct {
	cnt    map[*Item]int
	owned  map[*Item]bool // items created by the harness: it holds one reference itself
	allocs int
	order  []*Item
}

func vNewRefCounts() *vRefCounts {
	return &vRefCounts{cnt: map[*Item]int{}, owned: map[*Item]bool{}}
}

func (r *vRefCounts) own(i *Item) {
	r.cnt[i] = 1
	r.owned[i] = true
	r.order = append(r.order, i)
}

func (r *vRefCounts) positive(label string, i *Item) {
	vAssert(label, r.cnt[i] > 0)
}

func (r *vRefCounts) callbacks() StoreCallbacks {
	return StoreCallbacks{
		ItemAlloc: func(c *Collection, keyLength uint32) *Item {
			i := &Item{Key: make([]byte, keyLength)}
			r.cnt[i] = 1
			r.allocs++
			r.order = append(r.order, i)
			return i
		},
		ItemAddRef: func(c *Collection, i *Item) {
			vAssert("addref-on-released-item", r.cnt[i] > 0)
			r.cnt[i]++
		},
		ItemDecRef: func(c *Collection, i *Item) {
			r.cnt[i]--
			vAssert("refcount-below-zero", r.cnt[i] >= 0)
		},
	}
}

// reachablePositive: every item cached in the tree of an open handle has a
// positive count.
func (r *vRefCounts) reachablePositive(label string, nloc *nodeLoc, depth int) {
	if nloc == nil || nloc.node == nil || depth > 40 {
		return
	}
	n := nloc.node
	if it := n.item.item; it != nil {
		vAssert(label+":reachable-item-released", r.cnt[it] > 0)
	}
	r.reachablePositive(label, &n.left, depth+1)
	r.reachablePositive(label, &n.right, depth+1)
}

func (h *vHist) checkRefs(label string) {
	hs := append([]*vHandle{h.orig}, h.snaps...)
	for _, x := range hs {
		if !x.open {
			continue
		}
		for _, n := range x.colls {
			c := x.s.GetCollection(n.name)
			if c == nil || c.root == nil {
				continue
			}
			h.rc.reachablePositive(label, c.root.root, 0)
		}
	}
}

func vH_C15_hist() {
	rc := vNewRefCounts()
	h := vNewHist(vParam("store") == 1, rc)
	h.run(vParam("k"), vParam("opmask"), vParam("snaps"), func(l string) {
		h.checkRefs(l)
		if vParam("readback") == 1 {
			h.checkAllRC(l)
		}
	})
	// close everything: every reference gkvlite took must have been released
	for _, s := range h.snaps {
		if s.open {
			s.s.Close()
			s.open = false
		}
	}
	if h.orig.open {
		h.orig.s.Close()
		h.orig.open = false
	}
	for _, it := range rc.order {
		if rc.owned[it] {
			vAssert("final:caller-item-count-not-back-to-1", rc.cnt[it] == 1)
		} else {
			vAssert("final:gkvlite-item-count-not-back-to-0", rc.cnt[it] == 0)
		}
	}
	vCover("done")
}

// checkAllRC: like checkAll but releases the references handed out by
// MinItem/MaxItem (the caller's duty under the ref-counting protocol).
func (h *vHist) checkAllRC(label string) {
	hs := append([]*vHandle{h.orig}, h.snaps...)
	for _, x := range hs {
		if !x.open {
			continue
		}
		for _, n := range x.colls {
			c := x.s.GetCollection(n.name)
			if c == nil {
				continue
			}
			seen, err := vAscendAll(c, true)
			vAssert(label+":visit-ok", vAnd(err == nil, len(seen) == len(n.m.ents)))
			mi, err := c.MinItem(false)
			vAssert(label+":min-ok", err == nil)
			if mi != nil {
				h.rc.positive(label+":min-item-count", mi)
				x.s.ItemDecRef(c, mi)
			}
			ma, err := c.MaxItem(true)
			vAssert(label+":max-ok", err == nil)
			if ma != nil {
				h.rc.positive(label+":max-item-count", ma)
				x.s.ItemDecRef(c, ma)
			}
		}
	}
}

// Collection.Get hands out Item.Val only: the reference GetItem took for the
// caller cannot be released by the caller (known finding, API by design).
func vH_C15_get() {
	rc := vNewRefCounts()
	h := vNewHist(vParam("store") == 1, rc)
	key, val := vBytes("k", 1), vBytes("v", 1)
	it := &Item{Key: key, Val: val, Priority: 1}
	rc.own(it)
	c := h.orig.colls[0].c
	vAssert("set-ok", c.SetItem(it) == nil)
	vTrace("Get")
	got, err := c.Get(key)
	vAssert("get-ok", vAnd(err == nil, vBytesEq(got, val)))
	h.orig.s.Close()
	vAssert("get-leaks-reference", rc.cnt[it] == 1)
	vCover("done")
}
