// Copyright 2013 The Go Authors. All rights reserved.
// Use of this source code is governed by a BSD-style
// license that can be found in the LICENSE file.

package main

import (
	"bytes"
	"fmt"
	"go/constant"
	"go/token"
	"go/types"
	"os"
	"sort"
	"strings"
	"unsafe"

	"golang.org/x/tools/go/ssa"
)

// If the target program panics, the interpreter panics with this type.
type targetPanic struct {
	v value
}

func (p targetPanic) String() string {
	return toString(p.v)
}

// If the target program calls exit, the interpreter panics with this type.
type exitPanic int

// constValue returns the value of the constant with the
// dynamic type tag appropriate for c.Type().
func constValue(c *ssa.Const) value {
	if c.Value == nil {
		return zero(c.Type()) // typed zero
	}
	// c is not a type parameter so it's underlying type is basic.

	if t, ok := c.Type().Underlying().(*types.Basic); ok {
		// TODO(adonovan): eliminate untyped constants from SSA form.
		switch t.Kind() {
		case types.Bool, types.UntypedBool:
			return constant.BoolVal(c.Value)
		case types.Int, types.UntypedInt:
			// Assume sizeof(int) is same on host and target.
			return int(c.Int64())
		case types.Int8:
			return int8(c.Int64())
		case types.Int16:
			return int16(c.Int64())
		case types.Int32, types.UntypedRune:
			return int32(c.Int64())
		case types.Int64:
			return c.Int64()
		case types.Uint:
			// Assume sizeof(uint) is same on host and target.
			return uint(c.Uint64())
		case types.Uint8:
			return uint8(c.Uint64())
		case types.Uint16:
			return uint16(c.Uint64())
		case types.Uint32:
			return uint32(c.Uint64())
		case types.Uint64:
			return c.Uint64()
		case types.Uintptr:
			// Assume sizeof(uintptr) is same on host and target.
			return uintptr(c.Uint64())
		case types.Float32:
			return float32(c.Float64())
		case types.Float64, types.UntypedFloat:
			return c.Float64()
		case types.Complex64:
			return complex64(c.Complex128())
		case types.Complex128, types.UntypedComplex:
			return c.Complex128()
		case types.String, types.UntypedString:
			if c.Value.Kind() == constant.String {
				return constant.StringVal(c.Value)
			}
			return string(rune(c.Int64()))
		}
	}

	panic(fmt.Sprintf("constValue: %s", c))
}

// fitsInt returns true if x fits in type int according to sizes.
func fitsInt(x int64, sizes types.Sizes) bool {
	intSize := sizes.Sizeof(types.Typ[types.Int])
	if intSize < sizes.Sizeof(types.Typ[types.Int64]) {
		maxInt := int64(1)<<((intSize*8)-1) - 1
		minInt := -int64(1) << ((intSize * 8) - 1)
		return minInt <= x && x <= maxInt
	}
	return true
}

// asInt64 converts x, which must be an integer, to an int64.
//
// Callers that need a value directly usable as an int should combine this with fitsInt().
func asInt64(x value) int64 {
	switch x := x.(type) {
	case int:
		return int64(x)
	case int8:
		return int64(x)
	case int16:
		return int64(x)
	case int32:
		return int64(x)
	case int64:
		return x
	case uint:
		return int64(x)
	case uint8:
		return int64(x)
	case uint16:
		return int64(x)
	case uint32:
		return int64(x)
	case uint64:
		return int64(x)
	case uintptr:
		return int64(x)
	}
	panic(fmt.Sprintf("cannot convert %T to int64", x))
}

// asUint64 converts x, which must be an unsigned integer, to a uint64
// suitable for use as a bitwise shift count.
func asUint64(x value) uint64 {
	switch x := x.(type) {
	case uint:
		return uint64(x)
	case uint8:
		return uint64(x)
	case uint16:
		return uint64(x)
	case uint32:
		return uint64(x)
	case uint64:
		return x
	case uintptr:
		return uint64(x)
	}
	panic(fmt.Sprintf("cannot convert %T to uint64", x))
}

// asUnsigned returns the value of x, which must be an integer type, as its equivalent unsigned type,
// and returns true if x is non-negative.
func asUnsigned(x value) (value, bool) {
	switch x := x.(type) {
	case int:
		return uint(x), x >= 0
	case int8:
		return uint8(x), x >= 0
	case int16:
		return uint16(x), x >= 0
	case int32:
		return uint32(x), x >= 0
	case int64:
		return uint64(x), x >= 0
	case uint, uint8, uint16, uint32, uint64, uintptr:
		return x, true
	}
	panic(fmt.Sprintf("cannot convert %T to unsigned", x))
}

// zero returns a new "zero" value of the specified type.
func zero(t types.Type) value {
	switch t := t.(type) {
	case *types.Basic:
		if t.Kind() == types.UntypedNil {
			panic("untyped nil has no zero value")
		}
		if t.Info()&types.IsUntyped != 0 {
			// TODO(adonovan): make it an invariant that
			// this is unreachable.  Currently some
			// constants have 'untyped' types when they
			// should be defaulted by the typechecker.
			t = types.Default(t).(*types.Basic)
		}
		switch t.Kind() {
		case types.Bool:
			return false
		case types.Int:
			return int(0)
		case types.Int8:
			return int8(0)
		case types.Int16:
			return int16(0)
		case types.Int32:
			return int32(0)
		case types.Int64:
			return int64(0)
		case types.Uint:
			return uint(0)
		case types.Uint8:
			return uint8(0)
		case types.Uint16:
			return uint16(0)
		case types.Uint32:
			return uint32(0)
		case types.Uint64:
			return uint64(0)
		case types.Uintptr:
			return uintptr(0)
		case types.Float32:
			return float32(0)
		case types.Float64:
			return float64(0)
		case types.Complex64:
			return complex64(0)
		case types.Complex128:
			return complex128(0)
		case types.String:
			return ""
		case types.UnsafePointer:
			return unsafe.Pointer(nil)
		default:
			panic(fmt.Sprint("zero for unexpected type:", t))
		}
	case *types.Pointer:
		return (*value)(nil)
	case *types.Array:
		a := make(array, t.Len())
		for i := range a {
			a[i] = zero(t.Elem())
		}
		return a
	case *types.Named:
		return zero(t.Underlying())
	case *types.Alias:
		return zero(types.Unalias(t))
	case *types.Interface:
		return iface{} // nil type, methodset and value
	case *types.Slice:
		return []value(nil)
	case *types.Struct:
		s := make(structure, t.NumFields())
		for i := range s {
			s[i] = zero(t.Field(i).Type())
		}
		return s
	case *types.Tuple:
		if t.Len() == 1 {
			return zero(t.At(0).Type())
		}
		s := make(tuple, t.Len())
		for i := range s {
			s[i] = zero(t.At(i).Type())
		}
		return s
	case *types.Chan:
		return (*vchan)(nil)
	case *types.Map:
		if usesBuiltinMap(t.Key()) {
			return (*omap)(nil)
		}
		return (*hashmap)(nil)
	case *types.Signature:
		return (*ssa.Function)(nil)
	}
	panic(fmt.Sprint("zero: unexpected ", t))
}

// slice returns x[lo:hi:max].  Any of lo, hi and max may be nil.
func (i *interpreter) slice(x, lo, hi, max value) value {
	var Len, Cap int
	switch x := x.(type) {
	case string:
		Len = len(x)
	case []value:
		Len = len(x)
		Cap = cap(x)
	case *value: // *array
		a := (*x).(array)
		Len = len(a)
		Cap = cap(a)
	}

	l := int64(0)
	if lo != nil {
		l = int64(i.asInt(lo))
	}

	h := int64(Len)
	if hi != nil {
		h = int64(i.asInt(hi))
	}

	m := int64(Cap)
	if max != nil {
		m = int64(i.asInt(max))
	}

	switch x := x.(type) {
	case string:
		return x[l:h]
	case []value:
		return x[l:h:m]
	case *value: // *array
		a := (*x).(array)
		return []value(a)[l:h:m]
	}
	panic(fmt.Sprintf("slice: unexpected X type: %T", x))
}

// lookup returns x[idx] where x is a map.
func lookup(instr *ssa.Lookup, x, idx value) value {
	switch x := x.(type) { // map or string
	case *omap, *hashmap:
		var v value
		var ok bool
		switch x := x.(type) {
		case *omap:
			v, ok = x.get(idx)
		case *hashmap:
			v = x.lookup(idx.(hashable))
			ok = v != nil
		}
		if !ok {
			v = zero(instr.X.Type().Underlying().(*types.Map).Elem())
		}
		if instr.CommaOk {
			v = tuple{v, ok}
		}
		return v
	}
	panic(fmt.Sprintf("unexpected x type in Lookup: %T", x))
}

// binop implements all arithmetic and logical binary operators for
// numeric datatypes and strings.  Both operands must have identical
// dynamic type.
func concBinop(op token.Token, t types.Type, x, y value) value {
	switch op {
	case token.ADD:
		switch x.(type) {
		case int:
			return x.(int) + y.(int)
		case int8:
			return x.(int8) + y.(int8)
		case int16:
			return x.(int16) + y.(int16)
		case int32:
			return x.(int32) + y.(int32)
		case int64:
			return x.(int64) + y.(int64)
		case uint:
			return x.(uint) + y.(uint)
		case uint8:
			return x.(uint8) + y.(uint8)
		case uint16:
			return x.(uint16) + y.(uint16)
		case uint32:
			return x.(uint32) + y.(uint32)
		case uint64:
			return x.(uint64) + y.(uint64)
		case uintptr:
			return x.(uintptr) + y.(uintptr)
		case float32:
			return x.(float32) + y.(float32)
		case float64:
			return x.(float64) + y.(float64)
		case complex64:
			return x.(complex64) + y.(complex64)
		case complex128:
			return x.(complex128) + y.(complex128)
		case string:
			return x.(string) + y.(string)
		}

	case token.SUB:
		switch x.(type) {
		case int:
			return x.(int) - y.(int)
		case int8:
			return x.(int8) - y.(int8)
		case int16:
			return x.(int16) - y.(int16)
		case int32:
			return x.(int32) - y.(int32)
		case int64:
			return x.(int64) - y.(int64)
		case uint:
			return x.(uint) - y.(uint)
		case uint8:
			return x.(uint8) - y.(uint8)
		case uint16:
			return x.(uint16) - y.(uint16)
		case uint32:
			return x.(uint32) - y.(uint32)
		case uint64:
			return x.(uint64) - y.(uint64)
		case uintptr:
			return x.(uintptr) - y.(uintptr)
		case float32:
			return x.(float32) - y.(float32)
		case float64:
			return x.(float64) - y.(float64)
		case complex64:
			return x.(complex64) - y.(complex64)
		case complex128:
			return x.(complex128) - y.(complex128)
		}

	case token.MUL:
		switch x.(type) {
		case int:
			return x.(int) * y.(int)
		case int8:
			return x.(int8) * y.(int8)
		case int16:
			return x.(int16) * y.(int16)
		case int32:
			return x.(int32) * y.(int32)
		case int64:
			return x.(int64) * y.(int64)
		case uint:
			return x.(uint) * y.(uint)
		case uint8:
			return x.(uint8) * y.(uint8)
		case uint16:
			return x.(uint16) * y.(uint16)
		case uint32:
			return x.(uint32) * y.(uint32)
		case uint64:
			return x.(uint64) * y.(uint64)
		case uintptr:
			return x.(uintptr) * y.(uintptr)
		case float32:
			return x.(float32) * y.(float32)
		case float64:
			return x.(float64) * y.(float64)
		case complex64:
			return x.(complex64) * y.(complex64)
		case complex128:
			return x.(complex128) * y.(complex128)
		}

	case token.QUO:
		switch x.(type) {
		case int:
			return x.(int) / y.(int)
		case int8:
			return x.(int8) / y.(int8)
		case int16:
			return x.(int16) / y.(int16)
		case int32:
			return x.(int32) / y.(int32)
		case int64:
			return x.(int64) / y.(int64)
		case uint:
			return x.(uint) / y.(uint)
		case uint8:
			return x.(uint8) / y.(uint8)
		case uint16:
			return x.(uint16) / y.(uint16)
		case uint32:
			return x.(uint32) / y.(uint32)
		case uint64:
			return x.(uint64) / y.(uint64)
		case uintptr:
			return x.(uintptr) / y.(uintptr)
		case float32:
			return x.(float32) / y.(float32)
		case float64:
			return x.(float64) / y.(float64)
		case complex64:
			return x.(complex64) / y.(complex64)
		case complex128:
			return x.(complex128) / y.(complex128)
		}

	case token.REM:
		switch x.(type) {
		case int:
			return x.(int) % y.(int)
		case int8:
			return x.(int8) % y.(int8)
		case int16:
			return x.(int16) % y.(int16)
		case int32:
			return x.(int32) % y.(int32)
		case int64:
			return x.(int64) % y.(int64)
		case uint:
			return x.(uint) % y.(uint)
		case uint8:
			return x.(uint8) % y.(uint8)
		case uint16:
			return x.(uint16) % y.(uint16)
		case uint32:
			return x.(uint32) % y.(uint32)
		case uint64:
			return x.(uint64) % y.(uint64)
		case uintptr:
			return x.(uintptr) % y.(uintptr)
		}

	case token.AND:
		switch x.(type) {
		case int:
			return x.(int) & y.(int)
		case int8:
			return x.(int8) & y.(int8)
		case int16:
			return x.(int16) & y.(int16)
		case int32:
			return x.(int32) & y.(int32)
		case int64:
			return x.(int64) & y.(int64)
		case uint:
			return x.(uint) & y.(uint)
		case uint8:
			return x.(uint8) & y.(uint8)
		case uint16:
			return x.(uint16) & y.(uint16)
		case uint32:
			return x.(uint32) & y.(uint32)
		case uint64:
			return x.(uint64) & y.(uint64)
		case uintptr:
			return x.(uintptr) & y.(uintptr)
		}

	case token.OR:
		switch x.(type) {
		case int:
			return x.(int) | y.(int)
		case int8:
			return x.(int8) | y.(int8)
		case int16:
			return x.(int16) | y.(int16)
		case int32:
			return x.(int32) | y.(int32)
		case int64:
			return x.(int64) | y.(int64)
		case uint:
			return x.(uint) | y.(uint)
		case uint8:
			return x.(uint8) | y.(uint8)
		case uint16:
			return x.(uint16) | y.(uint16)
		case uint32:
			return x.(uint32) | y.(uint32)
		case uint64:
			return x.(uint64) | y.(uint64)
		case uintptr:
			return x.(uintptr) | y.(uintptr)
		}

	case token.XOR:
		switch x.(type) {
		case int:
			return x.(int) ^ y.(int)
		case int8:
			return x.(int8) ^ y.(int8)
		case int16:
			return x.(int16) ^ y.(int16)
		case int32:
			return x.(int32) ^ y.(int32)
		case int64:
			return x.(int64) ^ y.(int64)
		case uint:
			return x.(uint) ^ y.(uint)
		case uint8:
			return x.(uint8) ^ y.(uint8)
		case uint16:
			return x.(uint16) ^ y.(uint16)
		case uint32:
			return x.(uint32) ^ y.(uint32)
		case uint64:
			return x.(uint64) ^ y.(uint64)
		case uintptr:
			return x.(uintptr) ^ y.(uintptr)
		}

	case token.AND_NOT:
		switch x.(type) {
		case int:
			return x.(int) &^ y.(int)
		case int8:
			return x.(int8) &^ y.(int8)
		case int16:
			return x.(int16) &^ y.(int16)
		case int32:
			return x.(int32) &^ y.(int32)
		case int64:
			return x.(int64) &^ y.(int64)
		case uint:
			return x.(uint) &^ y.(uint)
		case uint8:
			return x.(uint8) &^ y.(uint8)
		case uint16:
			return x.(uint16) &^ y.(uint16)
		case uint32:
			return x.(uint32) &^ y.(uint32)
		case uint64:
			return x.(uint64) &^ y.(uint64)
		case uintptr:
			return x.(uintptr) &^ y.(uintptr)
		}

	case token.SHL:
		u, ok := asUnsigned(y)
		if !ok {
			panic("negative shift amount")
		}
		y := asUint64(u)
		switch x.(type) {
		case int:
			return x.(int) << y
		case int8:
			return x.(int8) << y
		case int16:
			return x.(int16) << y
		case int32:
			return x.(int32) << y
		case int64:
			return x.(int64) << y
		case uint:
			return x.(uint) << y
		case uint8:
			return x.(uint8) << y
		case uint16:
			return x.(uint16) << y
		case uint32:
			return x.(uint32) << y
		case uint64:
			return x.(uint64) << y
		case uintptr:
			return x.(uintptr) << y
		}

	case token.SHR:
		u, ok := asUnsigned(y)
		if !ok {
			panic("negative shift amount")
		}
		y := asUint64(u)
		switch x.(type) {
		case int:
			return x.(int) >> y
		case int8:
			return x.(int8) >> y
		case int16:
			return x.(int16) >> y
		case int32:
			return x.(int32) >> y
		case int64:
			return x.(int64) >> y
		case uint:
			return x.(uint) >> y
		case uint8:
			return x.(uint8) >> y
		case uint16:
			return x.(uint16) >> y
		case uint32:
			return x.(uint32) >> y
		case uint64:
			return x.(uint64) >> y
		case uintptr:
			return x.(uintptr) >> y
		}

	case token.LSS:
		switch x.(type) {
		case int:
			return x.(int) < y.(int)
		case int8:
			return x.(int8) < y.(int8)
		case int16:
			return x.(int16) < y.(int16)
		case int32:
			return x.(int32) < y.(int32)
		case int64:
			return x.(int64) < y.(int64)
		case uint:
			return x.(uint) < y.(uint)
		case uint8:
			return x.(uint8) < y.(uint8)
		case uint16:
			return x.(uint16) < y.(uint16)
		case uint32:
			return x.(uint32) < y.(uint32)
		case uint64:
			return x.(uint64) < y.(uint64)
		case uintptr:
			return x.(uintptr) < y.(uintptr)
		case float32:
			return x.(float32) < y.(float32)
		case float64:
			return x.(float64) < y.(float64)
		case string:
			return x.(string) < y.(string)
		}

	case token.LEQ:
		switch x.(type) {
		case int:
			return x.(int) <= y.(int)
		case int8:
			return x.(int8) <= y.(int8)
		case int16:
			return x.(int16) <= y.(int16)
		case int32:
			return x.(int32) <= y.(int32)
		case int64:
			return x.(int64) <= y.(int64)
		case uint:
			return x.(uint) <= y.(uint)
		case uint8:
			return x.(uint8) <= y.(uint8)
		case uint16:
			return x.(uint16) <= y.(uint16)
		case uint32:
			return x.(uint32) <= y.(uint32)
		case uint64:
			return x.(uint64) <= y.(uint64)
		case uintptr:
			return x.(uintptr) <= y.(uintptr)
		case float32:
			return x.(float32) <= y.(float32)
		case float64:
			return x.(float64) <= y.(float64)
		case string:
			return x.(string) <= y.(string)
		}

	case token.EQL:
		return eqnil(t, x, y)

	case token.NEQ:
		return !eqnil(t, x, y)

	case token.GTR:
		switch x.(type) {
		case int:
			return x.(int) > y.(int)
		case int8:
			return x.(int8) > y.(int8)
		case int16:
			return x.(int16) > y.(int16)
		case int32:
			return x.(int32) > y.(int32)
		case int64:
			return x.(int64) > y.(int64)
		case uint:
			return x.(uint) > y.(uint)
		case uint8:
			return x.(uint8) > y.(uint8)
		case uint16:
			return x.(uint16) > y.(uint16)
		case uint32:
			return x.(uint32) > y.(uint32)
		case uint64:
			return x.(uint64) > y.(uint64)
		case uintptr:
			return x.(uintptr) > y.(uintptr)
		case float32:
			return x.(float32) > y.(float32)
		case float64:
			return x.(float64) > y.(float64)
		case string:
			return x.(string) > y.(string)
		}

	case token.GEQ:
		switch x.(type) {
		case int:
			return x.(int) >= y.(int)
		case int8:
			return x.(int8) >= y.(int8)
		case int16:
			return x.(int16) >= y.(int16)
		case int32:
			return x.(int32) >= y.(int32)
		case int64:
			return x.(int64) >= y.(int64)
		case uint:
			return x.(uint) >= y.(uint)
		case uint8:
			return x.(uint8) >= y.(uint8)
		case uint16:
			return x.(uint16) >= y.(uint16)
		case uint32:
			return x.(uint32) >= y.(uint32)
		case uint64:
			return x.(uint64) >= y.(uint64)
		case uintptr:
			return x.(uintptr) >= y.(uintptr)
		case float32:
			return x.(float32) >= y.(float32)
		case float64:
			return x.(float64) >= y.(float64)
		case string:
			return x.(string) >= y.(string)
		}
	}
	panic(fmt.Sprintf("invalid binary op: %T %s %T", x, op, y))
}

// eqnil returns the comparison x == y using the equivalence relation
// appropriate for type t.
// If t is a reference type, at most one of x or y may be a nil value
// of that type.
func eqnil(t types.Type, x, y value) bool {
	switch t.Underlying().(type) {
	case *types.Map, *types.Signature, *types.Slice:
		// Since these types don't support comparison,
		// one of the operands must be a literal nil.
		switch x := x.(type) {
		case *hashmap:
			return (x != nil) == (y.(*hashmap) != nil)
		case *omap:
			return (x != nil) == (y.(*omap) != nil)
		case *ssa.Function:
			switch y := y.(type) {
			case *ssa.Function:
				return (x != nil) == (y != nil)
			case *closure:
				return true
			}
		case *closure:
			return (x != nil) == (y.(*ssa.Function) != nil)
		case []value:
			return (x != nil) == (y.([]value) != nil)
		}
		panic(fmt.Sprintf("eqnil(%s): illegal dynamic type: %T", t, x))
	}

	return equals(t, x, y)
}

func concUnop(i *interpreter, fr *frame, instr *ssa.UnOp, x value) value {
	switch instr.Op {
	case token.ARROW: // receive
		v, ok := i.chanRecv(fr, x)
		if !ok {
			v = zero(instr.X.Type().Underlying().(*types.Chan).Elem())
		}
		if instr.CommaOk {
			v = tuple{v, ok}
		}
		return v
	case token.SUB:
		switch x := x.(type) {
		case int:
			return -x
		case int8:
			return -x
		case int16:
			return -x
		case int32:
			return -x
		case int64:
			return -x
		case uint:
			return -x
		case uint8:
			return -x
		case uint16:
			return -x
		case uint32:
			return -x
		case uint64:
			return -x
		case uintptr:
			return -x
		case float32:
			return -x
		case float64:
			return -x
		case complex64:
			return -x
		case complex128:
			return -x
		}
	case token.MUL:
		return load(deref(instr.X.Type()), x.(*value))
	case token.NOT:
		return !x.(bool)
	case token.XOR:
		switch x := x.(type) {
		case int:
			return ^x
		case int8:
			return ^x
		case int16:
			return ^x
		case int32:
			return ^x
		case int64:
			return ^x
		case uint:
			return ^x
		case uint8:
			return ^x
		case uint16:
			return ^x
		case uint32:
			return ^x
		case uint64:
			return ^x
		case uintptr:
			return ^x
		}
	}
	panic(fmt.Sprintf("invalid unary op %s %T", instr.Op, x))
}

// typeAssert checks whether dynamic type of itf is instr.AssertedType.
// It returns the extracted value on success, and panics on failure,
// unless instr.CommaOk, in which case it always returns a "value,ok" tuple.
func typeAssert(i *interpreter, instr *ssa.TypeAssert, itf iface) value {
	var v value
	err := ""
	if itf.t == nil {
		err = fmt.Sprintf("interface conversion: interface is nil, not %s", instr.AssertedType)

	} else if idst, ok := instr.AssertedType.Underlying().(*types.Interface); ok {
		v = itf
		err = checkInterface(i, idst, itf)

	} else if types.Identical(itf.t, instr.AssertedType) {
		v = itf.v // extract value

	} else {
		err = fmt.Sprintf("interface conversion: interface is %s, not %s", itf.t, instr.AssertedType)
	}
	// Note: if instr.Underlying==true ever becomes reachable from interp check that
	// types.Identical(itf.t.Underlying(), instr.AssertedType)

	if err != "" {
		if !instr.CommaOk {
			panic(err)
		}
		return tuple{zero(instr.AssertedType), false}
	}
	if instr.CommaOk {
		return tuple{v, true}
	}
	return v
}

// This variable is no longer used but remains to prevent build breakage.
var CapturedOutput *bytes.Buffer

// callBuiltin interprets a call to builtin fn with arguments args,
// returning its result.
func callBuiltin(caller *frame, callpos token.Pos, fn *ssa.Builtin, args []value) value {
	switch fn.Name() {
	case "append":
		if len(args) == 1 {
			return args[0]
		}
		if s, ok := args[1].(string); ok {
			// append([]byte, ...string) []byte
			arg0 := args[0].([]value)
			for i := 0; i < len(s); i++ {
				arg0 = append(arg0, s[i])
			}
			return arg0
		}
		// append([]T, ...[]T) []T
		// Elements are memory cells: aggregates must be copied, not shared.
		return append(args[0].([]value), copyVals(args[1].([]value))...)

	case "copy": // copy([]T, []T) int or copy([]byte, string) int
		src := args[1]
		if _, ok := src.(string); ok {
			params := fn.Type().(*types.Signature).Params()
			src = caller.i.conv(params.At(0).Type(), params.At(1).Type(), src)
		}
		return copy(args[0].([]value), copyVals(src.([]value)))

	case "close": // close(chan T)
		caller.i.chanClose(caller, args[0])
		return nil

	case "delete": // delete(map[K]value, K)
		switch m := args[0].(type) {
		case *omap:
			m.del(caller.i.concreteKey(args[1]))
		case *hashmap:
			m.delete(args[1].(hashable))
		default:
			panic(fmt.Sprintf("illegal map type: %T", m))
		}
		return nil

	case "print", "println": // print(any, ...)
		ln := fn.Name() == "println"
		var buf bytes.Buffer
		for i, arg := range args {
			if i > 0 && ln {
				buf.WriteRune(' ')
			}
			buf.WriteString(toString(arg))
		}
		if ln {
			buf.WriteRune('\n')
		}
		os.Stderr.Write(buf.Bytes())
		return nil

	case "len":
		switch x := args[0].(type) {
		case string:
			return len(x)
		case array:
			return len(x)
		case *value:
			return len((*x).(array))
		case []value:
			return len(x)
		case *omap:
			return x.len()
		case *hashmap:
			return x.len()
		case *vchan:
			return 0
		default:
			panic(fmt.Sprintf("len: illegal operand: %T", x))
		}

	case "cap":
		switch x := args[0].(type) {
		case array:
			return cap(x)
		case *value:
			return cap((*x).(array))
		case []value:
			return cap(x)
		case *vchan:
			return 0
		default:
			panic(fmt.Sprintf("cap: illegal operand: %T", x))
		}

	case "min":
		return foldLeft(caller.i.min, args)
	case "max":
		return foldLeft(caller.i.max, args)

	case "real":
		switch c := args[0].(type) {
		case complex64:
			return real(c)
		case complex128:
			return real(c)
		default:
			panic(fmt.Sprintf("real: illegal operand: %T", c))
		}

	case "imag":
		switch c := args[0].(type) {
		case complex64:
			return imag(c)
		case complex128:
			return imag(c)
		default:
			panic(fmt.Sprintf("imag: illegal operand: %T", c))
		}

	case "complex":
		switch f := args[0].(type) {
		case float32:
			return complex(f, args[1].(float32))
		case float64:
			return complex(f, args[1].(float64))
		default:
			panic(fmt.Sprintf("complex: illegal operand: %T", f))
		}

	case "panic":
		// ssa.Panic handles most cases; this is only for "go
		// panic" or "defer panic".
		panic(targetPanic{args[0]})

	case "recover":
		return doRecover(caller)

	case "ssa:wrapnilchk":
		recv := args[0]
		if recv.(*value) == nil {
			recvType := args[1]
			methodName := args[2]
			panic(fmt.Sprintf("value method (%s).%s called using nil *%s pointer",
				recvType, methodName, recvType))
		}
		return recv

	case "ssa:deferstack":
		return &caller.defers
	}

	panic("unknown built-in: " + fn.Name())
}

func rangeIter(x value, t types.Type) iter {
	switch x := x.(type) {
	case *omap:
		return &mapIter{m: x, keys: x.keys()}
	case *hashmap:
		var hs []int
		for h := range x.entries() {
			hs = append(hs, h)
		}
		sort.Ints(hs)
		var ents []*entry
		for _, h := range hs {
			ents = append(ents, x.entries()[h])
		}
		return &hashmapIter{ents: ents}
	case string:
		return &stringIter{Reader: strings.NewReader(x)}
	}
	panic(fmt.Sprintf("cannot range over %T", x))
}

// widen widens a basic typed value x to the widest type of its
// category, one of:
//
//	bool, int64, uint64, float64, complex128, string.
//
// This is inefficient but reduces the size of the cross-product of
// cases we have to consider.
func widen(x value) value {
	switch y := x.(type) {
	case bool, int64, uint64, float64, complex128, string, unsafe.Pointer:
		return x
	case int:
		return int64(y)
	case int8:
		return int64(y)
	case int16:
		return int64(y)
	case int32:
		return int64(y)
	case uint:
		return uint64(y)
	case uint8:
		return uint64(y)
	case uint16:
		return uint64(y)
	case uint32:
		return uint64(y)
	case uintptr:
		return uint64(y)
	case float32:
		return float64(y)
	case complex64:
		return complex128(y)
	}
	panic(fmt.Sprintf("cannot widen %T", x))
}

// conv converts the value x of type t_src to type t_dst and returns
// the result.
// Possible cases are described with the ssa.Convert operator.
func concConv(t_dst, t_src types.Type, x value) value {
	ut_src := t_src.Underlying()
	ut_dst := t_dst.Underlying()

	// Destination type is not an "untyped" type.
	if b, ok := ut_dst.(*types.Basic); ok && b.Info()&types.IsUntyped != 0 {
		panic("oops: conversion to 'untyped' type: " + b.String())
	}

	// Nor is it an interface type.
	if _, ok := ut_dst.(*types.Interface); ok {
		if _, ok := ut_src.(*types.Interface); ok {
			panic("oops: Convert should be ChangeInterface")
		} else {
			panic("oops: Convert should be MakeInterface")
		}
	}

	// Remaining conversions:
	//    + untyped string/number/bool constant to a specific
	//      representation.
	//    + conversions between non-complex numeric types.
	//    + conversions between complex numeric types.
	//    + integer/[]byte/[]rune -> string.
	//    + string -> []byte/[]rune.
	//
	// All are treated the same: first we extract the value to the
	// widest representation (int64, uint64, float64, complex128,
	// or string), then we convert it to the desired type.

	switch ut_src := ut_src.(type) {
	case *types.Pointer:
		switch ut_dst := ut_dst.(type) {
		case *types.Basic:
			// *value to unsafe.Pointer?
			if ut_dst.Kind() == types.UnsafePointer {
				return unsafe.Pointer(x.(*value))
			}
		}

	case *types.Slice:
		// []byte or []rune -> string
		switch ut_src.Elem().Underlying().(*types.Basic).Kind() {
		case types.Byte:
			x := x.([]value)
			b := make([]byte, 0, len(x))
			for i := range x {
				b = append(b, x[i].(byte))
			}
			return string(b)

		case types.Rune:
			x := x.([]value)
			r := make([]rune, 0, len(x))
			for i := range x {
				r = append(r, x[i].(rune))
			}
			return string(r)
		}

	case *types.Basic:
		x = widen(x)

		// integer -> string?
		if ut_src.Info()&types.IsInteger != 0 {
			if ut_dst, ok := ut_dst.(*types.Basic); ok && ut_dst.Kind() == types.String {
				return fmt.Sprintf("%c", x)
			}
		}

		// string -> []rune, []byte or string?
		if s, ok := x.(string); ok {
			switch ut_dst := ut_dst.(type) {
			case *types.Slice:
				var res []value
				switch ut_dst.Elem().Underlying().(*types.Basic).Kind() {
				case types.Rune:
					for _, r := range []rune(s) {
						res = append(res, r)
					}
					return res
				case types.Byte:
					for _, b := range []byte(s) {
						res = append(res, b)
					}
					return res
				}
			case *types.Basic:
				if ut_dst.Kind() == types.String {
					return x.(string)
				}
			}
			break // fail: no other conversions for string
		}

		// unsafe.Pointer -> *value
		if ut_src.Kind() == types.UnsafePointer {
			// TODO(adonovan): this is wrong and cannot
			// really be fixed with the current design.
			//
			// return (*value)(x.(unsafe.Pointer))
			// creates a new pointer of a different
			// type but the underlying interface value
			// knows its "true" type and so cannot be
			// meaningfully used through the new pointer.
			//
			// To make this work, the interpreter needs to
			// simulate the memory layout of a real
			// compiled implementation.
			//
			// To at least preserve type-safety, we'll
			// just return the zero value of the
			// destination type.
			return zero(t_dst)
		}

		// Conversions between complex numeric types?
		if ut_src.Info()&types.IsComplex != 0 {
			switch ut_dst.(*types.Basic).Kind() {
			case types.Complex64:
				return complex64(x.(complex128))
			case types.Complex128:
				return x.(complex128)
			}
			break // fail: no other conversions for complex
		}

		// Conversions between non-complex numeric types?
		if ut_src.Info()&types.IsNumeric != 0 {
			kind := ut_dst.(*types.Basic).Kind()
			switch x := x.(type) {
			case int64: // signed integer -> numeric?
				switch kind {
				case types.Int:
					return int(x)
				case types.Int8:
					return int8(x)
				case types.Int16:
					return int16(x)
				case types.Int32:
					return int32(x)
				case types.Int64:
					return int64(x)
				case types.Uint:
					return uint(x)
				case types.Uint8:
					return uint8(x)
				case types.Uint16:
					return uint16(x)
				case types.Uint32:
					return uint32(x)
				case types.Uint64:
					return uint64(x)
				case types.Uintptr:
					return uintptr(x)
				case types.Float32:
					return float32(x)
				case types.Float64:
					return float64(x)
				}

			case uint64: // unsigned integer -> numeric?
				switch kind {
				case types.Int:
					return int(x)
				case types.Int8:
					return int8(x)
				case types.Int16:
					return int16(x)
				case types.Int32:
					return int32(x)
				case types.Int64:
					return int64(x)
				case types.Uint:
					return uint(x)
				case types.Uint8:
					return uint8(x)
				case types.Uint16:
					return uint16(x)
				case types.Uint32:
					return uint32(x)
				case types.Uint64:
					return uint64(x)
				case types.Uintptr:
					return uintptr(x)
				case types.Float32:
					return float32(x)
				case types.Float64:
					return float64(x)
				}

			case float64: // floating point -> numeric?
				switch kind {
				case types.Int:
					return int(x)
				case types.Int8:
					return int8(x)
				case types.Int16:
					return int16(x)
				case types.Int32:
					return int32(x)
				case types.Int64:
					return int64(x)
				case types.Uint:
					return uint(x)
				case types.Uint8:
					return uint8(x)
				case types.Uint16:
					return uint16(x)
				case types.Uint32:
					return uint32(x)
				case types.Uint64:
					return uint64(x)
				case types.Uintptr:
					return uintptr(x)
				case types.Float32:
					return float32(x)
				case types.Float64:
					return float64(x)
				}
			}
		}
	}

	panic(fmt.Sprintf("unsupported conversion: %s  -> %s, dynamic type %T", t_src, t_dst, x))
}

// sliceToArrayPointer converts the value x of type slice to type t_dst
// a pointer to array and returns the result.
func sliceToArrayPointer(t_dst, t_src types.Type, x value) value {
	if _, ok := t_src.Underlying().(*types.Slice); ok {
		if ptr, ok := t_dst.Underlying().(*types.Pointer); ok {
			if arr, ok := ptr.Elem().Underlying().(*types.Array); ok {
				x := x.([]value)
				if arr.Len() > int64(len(x)) {
					panic("array length is greater than slice length")
				}
				if x == nil {
					return zero(t_dst)
				}
				v := value(array(x[:arr.Len()]))
				return &v
			}
		}
	}

	panic(fmt.Sprintf("unsupported conversion: %s  -> %s, dynamic type %T", t_src, t_dst, x))
}

// checkInterface checks that the method set of x implements the
// interface itype.
// On success it returns "", on failure, an error message.
func checkInterface(i *interpreter, itype *types.Interface, x iface) string {
	if meth, _ := types.MissingMethod(x.t, itype, true); meth != nil {
		return fmt.Sprintf("interface conversion: %v is not %v: missing method %s",
			x.t, itype, meth.Name())
	}
	return "" // ok
}

func foldLeft(op func(value, value) value, args []value) value {
	x := args[0]
	for _, arg := range args[1:] {
		x = op(x, arg)
	}
	return x
}

func (i *interpreter) min(x, y value) value {
	switch x := x.(type) {
	case float32:
		return fmin(x, y.(float32))
	case float64:
		return fmin(x, y.(float64))
	}

	// return (y < x) ? y : x
	if i.cond(i.binop(token.LSS, nil, y, x)) {
		return y
	}
	return x
}

func (i *interpreter) max(x, y value) value {
	switch x := x.(type) {
	case float32:
		return fmax(x, y.(float32))
	case float64:
		return fmax(x, y.(float64))
	}

	// return (y > x) ? y : x
	if i.cond(i.binop(token.GTR, nil, y, x)) {
		return y
	}
	return x
}

// copied from $GOROOT/src/runtime/minmax.go

type floaty interface{ ~float32 | ~float64 }

func fmin[F floaty](x, y F) F {
	if y != y || y < x {
		return y
	}
	if x != x || x < y || x != 0 {
		return x
	}
	// x and y are both ±0
	// if either is -0, return -0; else return +0
	return forbits(x, y)
}

func fmax[F floaty](x, y F) F {
	if y != y || y > x {
		return y
	}
	if x != x || x > y || x != 0 {
		return x
	}
	// x and y are both ±0
	// if both are -0, return -0; else return +0
	return fandbits(x, y)
}

func forbits[F floaty](x, y F) F {
	switch unsafe.Sizeof(x) {
	case 4:
		*(*uint32)(unsafe.Pointer(&x)) |= *(*uint32)(unsafe.Pointer(&y))
	case 8:
		*(*uint64)(unsafe.Pointer(&x)) |= *(*uint64)(unsafe.Pointer(&y))
	}
	return x
}

func fandbits[F floaty](x, y F) F {
	switch unsafe.Sizeof(x) {
	case 4:
		*(*uint32)(unsafe.Pointer(&x)) &= *(*uint32)(unsafe.Pointer(&y))
	case 8:
		*(*uint64)(unsafe.Pointer(&x)) &= *(*uint64)(unsafe.Pointer(&y))
	}
	return x
}

// copyVal deep-copies aggregate values (struct/array); scalars, pointers,
// slices, maps etc. are reference or immutable values and are shared.
func copyVal(v value) value {
	switch v := v.(type) {
	case structure:
		c := make(structure, len(v))
		for i := range v {
			c[i] = copyVal(v[i])
		}
		return c
	case array:
		c := make(array, len(v))
		for i := range v {
			c[i] = copyVal(v[i])
		}
		return c
	}
	return v
}

func copyVals(s []value) []value {
	if len(s) == 0 {
		return s
	}
	switch s[0].(type) {
	case structure, array:
		c := make([]value, len(s))
		for i := range s {
			c[i] = copyVal(s[i])
		}
		return c
	}
	return s
}
