package gkvlite

// C16 (whole-collection enumerations) and C08 (FlushRevert).

func vExactlyOnce(label string, seen [][]byte, m *vModel) {
	vAssert(label+":visit-count", len(seen) == len(m.ents))
	for i := range m.ents {
		cnt := 0
		for j := range seen {
			cnt += vIteInt(vBytesEq(seen[j], m.ents[i].key), 1, 0)
		}
		vAssert(label+":each-item-exactly-once", cnt == 1)
	}
}

func vChoosePerm(b [][]byte) [][]byte {
	for i := len(b) - 1; i > 0; i-- {
		j := vChoose("perm", 0, i)
		b[i], b[j] = b[j], b[i]
	}
	return b
}

func vH_C16_enum() {
	cfg := vCfgFromParams()
	if vChoose("cmp", 0, vParam("cmps")-1) == 1 {
		cfg.cmp = vReverseCompare
	}
	pre := vBuildPre(cfg)
	c, m := pre.c, pre.m
	switch vChoose("which", 0, 2) {
	case 0:
		vTrace("Len")
		l, err := c.Len()
		vAssert("len", vAnd(err == nil, l == int64(len(m.ents))))
	case 1:
		vTrace("VisitItemsAscendBlockEx")
		var seen [][]byte
		wv := vChoose("withValue", 0, 1) == 1
		var mang BlockMangler
		if vChoose("mangler", 0, 1) == 1 {
			mang = vChoosePerm
		}
		err := c.VisitItemsAscendBlockEx(wv, mang, func(i *Item, d uint64) bool {
			seen = append(seen, i.Key)
			return true
		})
		vAssert("block-visit-noerr", err == nil)
		vExactlyOnce("block", seen, m)
	case 2:
		vTrace("VisitItemsRandom")
		var seen [][]byte
		err := c.VisitItemsRandom(func(i *Item, d uint64) bool {
			seen = append(seen, i.Key)
			return true
		})
		vAssert("random-visit-noerr", err == nil)
		vExactlyOnce("random", seen, m)
	}
	if len(m.ents) == 0 {
		vCover("empty")
	}
	vCover("done")
}

// vBalanced builds a balanced tree over n concrete 2-byte keys with the real
// mkNode (boundary sizes around multiples of MaxBlockCnt).
func vBalanced(c *Collection, lo, hi int, m *vModel) *nodeLoc {
	if lo > hi {
		return nil
	}
	r := (lo + hi) / 2
	left := vBalanced(c, lo, r-1, m)
	key := []byte{byte(r >> 8), byte(r)}
	val := []byte{}
	it := &Item{Key: key, Val: val, Priority: int32(hi - lo)}
	right := vBalanced(c, r+1, hi, m)
	var num, byt uint64 = 1, 2
	if left != nil {
		num += left.node.numNodes
		byt += left.node.numBytes
	}
	if right != nil {
		num += right.node.numNodes
		byt += right.node.numBytes
	}
	n := c.mkNode(&itemLoc{item: it}, left, right, num, byt)
	c.freeNodeLoc(left)
	c.freeNodeLoc(right)
	return c.mkNodeLoc(n)
}

func vH_C16_boundary() {
	n := vChoose("n", vParam("nmin"), vParam("nmax"))
	s, _ := vNewStore(false)
	c := s.SetCollection("a", nil)
	m := &vModel{}
	root := vBalanced(c, 0, n-1, m)
	rnl := c.rootAddRef()
	rnlNew := c.mkRootNodeLoc(root)
	vAssert("rootcas", c.rootCAS(rnl, rnlNew))
	c.rootDecRef(rnl)
	c.rootDecRef(rnl)
	which := vChoose("which", 0, 2)
	cnt := make([]int, n)
	total := 0
	vis := func(i *Item, d uint64) bool {
		k := int(i.Key[0])<<8 | int(i.Key[1])
		cnt[k]++
		total++
		return true
	}
	switch which {
	case 0:
		vTrace("Len")
		l, err := c.Len()
		vAssert("len", vAnd(err == nil, l == int64(n)))
		vCover("done")
		return
	case 1:
		vTrace("VisitItemsAscendBlockEx")
		var mang BlockMangler
		if vChoose("mangler", 0, 1) == 1 {
			mang = func(b [][]byte) [][]byte { // reverse
				for i, j := 0, len(b)-1; i < j; i, j = i+1, j-1 {
					b[i], b[j] = b[j], b[i]
				}
				return b
			}
		}
		vAssert("block-visit-noerr", c.VisitItemsAscendBlockEx(false, mang, vis) == nil)
	case 2:
		vTrace("VisitItemsRandom")
		vAssert("random-visit-noerr", c.VisitItemsRandom(vis) == nil)
	}
	vAssert("visit-count", total == n)
	ok := true
	for k := 0; k < n; k++ {
		if cnt[k] != 1 {
			ok = false
		}
	}
	vAssert("each-item-exactly-once", ok)
	vCover("done")
}

// ------------------------------------------------------------------ C08

type vFlushRec struct {
	m   *vModel
	end int64
	has bool // collection "a" existed at that flush
}

func vH_C08_revert() {
	file := vParam("store") == 1
	s, f := vNewStore(file)
	if !file {
		vTrace("FlushRevert(memory-only)")
		vAssert("memonly-revert-rejected", s.FlushRevert() != nil)
		vCover("memonly")
		return
	}
	cmp := vCmpDefault
	var cbs StoreCallbacks
	if vChoose("custom-cmp", 0, vParam("cmps")-1) == 1 {
		cmp = vReverseCompare
		cbs.KeyCompareForCollection = func(string) KeyCompare { return vReverseCompare }
		var err error
		s, err = NewStoreEx(f, cbs)
		vAssert("newstoreex", vAnd(err == nil, s != nil))
	}
	c := s.SetCollection("a", cmp)
	m := &vModel{cmp: cmp}
	var stack []vFlushRec
	nf := vChoose("flushes", 0, vParam("flushes"))
	for i := 0; i < nf; i++ {
		vl := 1
		if vParam("bigval") == 1 && i == nf-1 {
			// long enough to spell the doubled end marker: the backward scan of a
			// later FlushRevert must not be fooled by it
			vl = 12
		}
		if vChoose("roots-only-flush", 0, vParam("rootsonly")) == 1 {
			// nothing dirty: this flush appends a roots record and nothing else
			vTrace("roots-only")
		} else {
			key, val := vBytes("k", 1), vBytes("v", vl)
			vAssert("set-ok", c.Set(key, val) == nil)
			it, _ := c.GetItem(key, false)
			m.set(key, val, it.Priority)
		}
		if vChoose("second-op", 0, 1-vParam("lean")) == 1 {
			k2 := vBytes("k2", 1)
			was, err := c.Delete(k2)
			vAssert("delete-ok", vAnd(err == nil, was == m.del(k2)))
		}
		vTrace("Flush")
		vAssert("flush-ok", s.Flush() == nil)
		stack = append(stack, vFlushRec{m.clone(), int64(len(f.data)), true})
	}
	pend := vChoose("pending", 0, 2*(1-vParam("lean")))
	if pend >= 1 && c != nil {
		vTrace("pending-Set")
		c.Set(vBytes("pk", 1), vBytes("pv", 1))
		if pend == 2 {
			// persisted but not committed: bytes behind the last root record
			vTrace("pending-Write")
			vAssert("pending-write-ok", c.Write() == nil)
		}
	}
	if nf > 0 && vChoose("reopen", 0, 1) == 1 {
		vTrace("Reopen")
		s2, err := NewStoreEx(f, cbs)
		vAssert("reopen-ok", vAnd(err == nil, s2 != nil))
		s = s2
		c = s.GetCollection("a")
	}
	r := vChoose("reverts", 1, nf+1)
	for j := 0; j < r; j++ {
		vTrace("FlushRevert")
		err := s.FlushRevert()
		vAssert("revert-noerr", err == nil)
		idx := nf - 2 - j
		if idx >= 0 {
			want := stack[idx]
			vAssert("revert-file-length", int64(len(f.data)) == want.end)
			names := s.GetCollectionNames()
			vAssert("revert-names", vAnd(len(names) == 1, len(names) != 1 || names[0] == "a"))
			c = s.GetCollection("a")
			vAssert("revert-coll", c != nil)
			if c != nil {
				vCheckColl("reverted", c, want.m)
			}
			vCover("reverted-to-flush")
		} else {
			vAssert("revert-empty-file-length", len(f.data) == 0)
			vAssert("revert-empty-names", len(s.GetCollectionNames()) == 0)
			c = nil
			vCover("reverted-to-empty")
		}
		// re-open agrees
		s3, err := NewStoreEx(f, cbs)
		vAssert("revert-reopen-ok", vAnd(err == nil, s3 != nil))
		if s3 != nil {
			if idx >= 0 {
				c3 := s3.GetCollection("a")
				vAssert("revert-reopen-coll", c3 != nil)
				if c3 != nil {
					vCheckColl("reverted-reopen", c3, stack[idx].m)
				}
			} else {
				vAssert("revert-reopen-empty", len(s3.GetCollectionNames()) == 0)
			}
		}
	}
	// new flushes after a revert are durable as usual
	if vChoose("continue", 0, 1-vParam("lean")) == 1 {
		vTrace("continue")
		c = s.SetCollection("a", cmp)
		cur := &vModel{cmp: cmp}
		if idx := nf - 1 - r; idx >= 0 {
			cur = stack[idx].m.clone()
		}
		key, val := vBytes("ck", 1), vBytes("cv", 1)
		vAssert("continue-set", c.Set(key, val) == nil)
		it, _ := c.GetItem(key, false)
		cur.set(key, val, it.Priority)
		vAssert("continue-flush", s.Flush() == nil)
		s4, err := NewStoreEx(f, cbs)
		vAssert("continue-reopen", vAnd(err == nil, s4 != nil))
		if s4 != nil && s4.GetCollection("a") != nil {
			vCheckColl("continued", s4.GetCollection("a"), cur)
		}
		vCover("continued")
	}
	vCover("done")
}

// C16 over short histories: enumerations interleaved with mutations (an
// enumeration must reflect the collection as it is now, not as it was at an
// earlier enumeration).
func vH_C16_hist() {
	s, _ := vNewStore(false)
	c := s.SetCollection("a", nil)
	m := &vModel{cmp: vCmpDefault}
	steps := vParam("k")
	for st := 0; st < steps; st++ {
		switch vChoose("op", 0, 2) {
		case 0:
			vTrace("Set")
			k, v := vBytes("k", 1), vBytes("v", 1)
			p := vInt32("p")
			vAssume(p >= 0)
			vAssert("set-ok", c.SetItem(&Item{Key: k, Val: v, Priority: p}) == nil)
			m.set(k, v, p)
		case 1:
			vTrace("Delete")
			k := vBytes("k", 1)
			was, err := c.Delete(k)
			vAssert("delete-ok", vAnd(err == nil, was == m.del(k)))
		case 2:
			var seen [][]byte
			vis := func(i *Item, d uint64) bool { seen = append(seen, i.Key); return true }
			switch vChoose("enum", 0, 2) {
			case 0:
				vTrace("Len")
				l, err := c.Len()
				vAssert("hist-len", vAnd(err == nil, l == int64(len(m.ents))))
				continue
			case 1:
				vTrace("VisitItemsAscendBlockEx")
				vAssert("hist-block-noerr", c.VisitItemsAscendBlockEx(false, nil, vis) == nil)
			case 2:
				vTrace("VisitItemsRandom")
				vAssert("hist-random-noerr", c.VisitItemsRandom(vis) == nil)
			}
			vExactlyOnce("hist", seen, m)
			vCover("enumerated")
		}
	}
	vCover("done")
}
