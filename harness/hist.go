package gkvlite

// HIST harnesses: bounded histories through the public API from the empty
// store, operation codes nondeterministic, item data symbolic.  Used where the
// relevant state (version chains, reclaim marks, reference counts) has no
// invariant that could be axiomatised safely: C04, C10, C12, C15.

import "bytes"

type vNamed struct {
	name string
	m    *vModel
	c    *Collection // handle (for the original store: the current handle)
}

type vHandle struct {
	s     *Store
	colls []vNamed // sorted by name
	snap  bool
	open  bool
}

func (h *vHandle) find(name string) int {
	for i := range h.colls {
		if h.colls[i].name == name {
			return i
		}
	}
	return -1
}

func (h *vHandle) insert(n vNamed) {
	pos := len(h.colls)
	for i := range h.colls {
		if n.name < h.colls[i].name {
			pos = i
			break
		}
	}
	h.colls = append(h.colls, vNamed{})
	copy(h.colls[pos+1:], h.colls[pos:])
	h.colls[pos] = n
}

func (h *vHandle) remove(name string) {
	if i := h.find(name); i >= 0 {
		h.colls = append(h.colls[:i], h.colls[i+1:]...)
	}
}

func (h *vHandle) snapshotModels() []vNamed {
	out := make([]vNamed, len(h.colls))
	for i, n := range h.colls {
		out[i] = vNamed{name: n.name, m: n.m.clone()}
	}
	return out
}

type vHist struct {
	orig         *vHandle
	snaps        []*vHandle
	f            *vFile
	rc           *vRefCounts // non-nil: C15 callbacks installed
	other        *Store      // second store sharing the process-wide free lists (C10)
	otherC       *Collection
	flushed      []vNamed // model at the last successful flush (C12/C02)
	steps        int
	pinnedVisits int
}

const (
	hSet = iota
	hDelete
	hFlush
	hEvict
	hSnapshot
	hSnapOfSnap
	hCloseSnap
	hRemoveColl
	hSetCollExisting
	hSetCollNew
	hCloseStore
	hChurn
	hPinnedVisit
	hReopen
	hGetRelease
	hSnapRevert
	hSnapWrite
	hLookups
	hNumOps
)

var vHistOpNames = []string{"Set", "Delete", "Flush", "Evict", "Snapshot", "SnapshotOfSnapshot", "CloseSnapshot",
	"RemoveCollection", "SetCollection(existing)", "SetCollection(new)", "Close(store)", "Churn(other store)",
	"VisitWithNestedOps", "Flush+Reopen", "GetItem+release", "Snapshot.FlushRevert", "Snapshot.Write", "Exist/Len/blockvisit"}

func vNewHist(file bool, rc *vRefCounts) *vHist {
	h := &vHist{rc: rc}
	var s *Store
	var err error
	if file {
		h.f = &vFile{}
		if rc != nil {
			s, err = NewStoreEx(h.f, rc.callbacks())
		} else {
			s, err = NewStore(h.f)
		}
	} else {
		if rc != nil {
			s, err = NewStoreEx(nil, rc.callbacks())
		} else {
			s, err = NewStore(nil)
		}
	}
	vAssert("hist-newstore", vAnd(err == nil, s != nil))
	h.orig = &vHandle{s: s, open: true}
	c := s.SetCollection("a", nil)
	h.orig.insert(vNamed{"a", &vModel{cmp: bytes.Compare}, c})
	return h
}

// checkAll re-reads every open handle in full and compares with its model.
func (h *vHist) checkAll(label string) {
	hs := append([]*vHandle{h.orig}, h.snaps...)
	for _, x := range hs {
		if !x.open {
			continue
		}
		names := x.s.GetCollectionNames()
		vAssert(label+":names-count", len(names) == len(x.colls))
		if len(names) != len(x.colls) {
			continue
		}
		for i, n := range x.colls {
			vAssert(label+":name", names[i] == n.name)
			c := x.s.GetCollection(n.name)
			vAssert(label+":coll-present", c != nil)
			if c == nil {
				continue
			}
			lab := label + ":orig"
			if x.snap {
				lab = label + ":snap"
			}
			vCheckColl(lab, c, n.m)
		}
	}
}

func (h *vHist) pickColl(x *vHandle) int {
	if len(x.colls) == 0 {
		return -1
	}
	if len(x.colls) == 1 {
		return 0
	}
	return vChoose("coll", 0, len(x.colls)-1)
}

func (h *vHist) pickSnap() int {
	var open []int
	for i, s := range h.snaps {
		if s.open {
			open = append(open, i)
		}
	}
	if len(open) == 0 {
		return -1
	}
	if len(open) == 1 {
		return open[0]
	}
	return open[vChoose("snap", 0, len(open)-1)]
}

// step performs operation op; returns false when op does not apply.
func (h *vHist) step(op int, maxSnaps int) bool {
	o := h.orig
	switch op {
	case hSet, hDelete, hEvict, hPinnedVisit, hGetRelease:
		if !o.open {
			return false
		}
		ci := h.pickColl(o)
		if ci < 0 {
			return false
		}
		n := &o.colls[ci]
		switch op {
		case hSet:
			vTrace("Set")
			key, val := vBytes("k", 1), vBytes("v", 1)
			prio := vInt32("p")
			vAssume(prio >= 0)
			it := &Item{Key: key, Val: val, Priority: prio}
			if h.rc != nil {
				h.rc.own(it)
			}
			err := n.c.SetItem(it)
			vAssert("set-ok", err == nil)
			n.m.set(key, val, prio)
		case hDelete:
			vTrace("Delete")
			key := vBytes("k", 1)
			was, err := n.c.Delete(key)
			want := n.m.del(key)
			vAssert("delete-ok", vAnd(err == nil, was == want))
		case hEvict:
			vTrace("Evict")
			n.c.EvictSomeItems()
		case hGetRelease:
			vTrace("GetItem+release")
			key := vBytes("k", 1)
			it, err := n.c.GetItem(key, vChoose("wv", 0, 1) == 1)
			vAssert("get-ok", err == nil)
			if it != nil && h.rc != nil {
				h.rc.positive("get-returned-item-count", it)
				o.s.ItemDecRef(n.c, it) // the caller releases what it was handed
			}
		case hPinnedVisit:
			if h.pinnedVisits >= vParam("maxpinned") {
				return false
			}
			h.pinnedVisits++
			vTrace("VisitWithNestedOps")
			// a version pinned in flight while the mutator goes on
			nested := vChoose("nested", 0, 2)
			key, val := vBytes("k", 1), vBytes("v", 1)
			prio := vInt32("p")
			vAssume(prio >= 0)
			done := false
			before := n.m.clone()
			var seen []vSeen
			descend := vChoose("pinned-descend", 0, 1) == 1
			visitFn := n.c.VisitItemsAscendEx
			target := []byte(nil)
			if descend {
				visitFn = n.c.VisitItemsDescendEx
				target = []byte{0xff, 0xff}
			}
			err := visitFn(target, true, func(i *Item, d uint64) bool {
				if descend {
					seen = append([]vSeen{{i.Key, i.Val, i.Priority, d}}, seen...)
				} else {
					seen = append(seen, vSeen{i.Key, i.Val, i.Priority, d})
				}
				if !done {
					done = true
					switch nested {
					case 0:
						it := &Item{Key: key, Val: val, Priority: prio}
						if h.rc != nil {
							h.rc.own(it)
						}
						vAssert("nested-set-ok", n.c.SetItem(it) == nil)
						n.m.set(key, val, prio)
					case 1:
						was, err := n.c.Delete(key)
						vAssert("nested-delete-ok", vAnd(err == nil, was == n.m.del(key)))
					case 2:
						it := &Item{Key: key, Val: val, Priority: prio}
						if h.rc != nil {
							h.rc.own(it)
						}
						vAssert("nested-set-ok", n.c.SetItem(it) == nil)
						n.m.set(key, val, prio)
						if h.other != nil {
							h.churn()
						}
					}
				}
				return true
			})
			vAssert("pinned-visit-ok", err == nil)
			// the visit must have seen exactly the version pinned at its start
			vAssert("pinned-visit-count", len(seen) == len(before.ents))
			if len(seen) == len(before.ents) {
				for i := range seen {
					vAssert("pinned-visit-key", vBytesEq(seen[i].key, before.ents[i].key))
					vAssert("pinned-visit-val", vBytesEq(seen[i].val, before.ents[i].val))
				}
			}
		}
	case hFlush:
		if !o.open || h.f == nil {
			return false
		}
		vTrace("Flush")
		vAssert("flush-ok", o.s.Flush() == nil)
		h.flushed = o.snapshotModels()
	case hSnapshot:
		if !o.open || len(h.snaps) >= maxSnaps {
			return false
		}
		vTrace("Snapshot")
		sn := o.s.Snapshot()
		h.snaps = append(h.snaps, &vHandle{s: sn, colls: o.snapshotModels(), snap: true, open: true})
	case hSnapOfSnap:
		k := h.pickSnap()
		if k < 0 || len(h.snaps) >= maxSnaps {
			return false
		}
		vTrace("SnapshotOfSnapshot")
		sn := h.snaps[k].s.Snapshot()
		h.snaps = append(h.snaps, &vHandle{s: sn, colls: h.snaps[k].snapshotModels(), snap: true, open: true})
	case hCloseSnap:
		k := h.pickSnap()
		if k < 0 {
			return false
		}
		vTrace("CloseSnapshot")
		h.snaps[k].s.Close()
		h.snaps[k].open = false
	case hSnapRevert:
		k := h.pickSnap()
		if k < 0 || h.f == nil {
			return false
		}
		vTrace("Snapshot.FlushRevert")
		before := len(h.f.data)
		h.f.resetLogs()
		err := h.snaps[k].s.FlushRevert()
		_ = err
		vAssert("snapshot-revert-wrote", vAnd(len(h.f.writes) == 0, len(h.f.truncs) == 0))
		vAssert("snapshot-revert-file-length", len(h.f.data) == before)
		// the snapshot itself is now at an earlier flush; stop checking it
		h.snaps[k].open = false
	case hLookups:
		if !o.open {
			return false
		}
		ci := h.pickColl(o)
		if ci < 0 {
			return false
		}
		n := &o.colls[ci]
		switch vChoose("lookup", 0, 2) {
		case 0:
			vTrace("Exist")
			key := vBytes("k", 1)
			vAssert("exist-result", n.c.Exist(key) == (n.m.find(key) >= 0))
		case 1:
			vTrace("Len")
			l, err := n.c.Len()
			vAssert("len-result", vAnd(err == nil, l == int64(len(n.m.ents))))
		case 2:
			vTrace("VisitItemsAscendBlockEx")
			cnt := 0
			err := n.c.VisitItemsAscendBlockEx(false, nil, func(i *Item, d uint64) bool { cnt++; return true })
			vAssert("blockvisit-result", vAnd(err == nil, cnt == len(n.m.ents)))
		}
	case hSnapWrite:
		k := h.pickSnap()
		if k < 0 || len(h.snaps[k].colls) == 0 {
			return false
		}
		vTrace("Snapshot.Write/Set/Delete/Flush")
		sc := h.snaps[k].s.GetCollection(h.snaps[k].colls[0].name)
		var before int
		if h.f != nil {
			before = len(h.f.data)
			h.f.resetLogs()
		}
		vAssert("snapshot-refuses-write", sc.Write() != nil)
		vAssert("snapshot-refuses-set", sc.Set([]byte("q"), []byte("q")) != nil)
		_, derr := sc.Delete([]byte("q"))
		vAssert("snapshot-refuses-delete", derr != nil)
		vAssert("snapshot-refuses-flush", h.snaps[k].s.Flush() != nil)
		if h.f != nil {
			vAssert("snapshot-ops-wrote-to-file", vAnd(len(h.f.writes) == 0, vAnd(len(h.f.truncs) == 0, len(h.f.data) == before)))
		}
	case hRemoveColl:
		if !o.open {
			return false
		}
		ci := h.pickColl(o)
		if ci < 0 {
			return false
		}
		vTrace("RemoveCollection")
		o.s.RemoveCollection(o.colls[ci].name)
		o.remove(o.colls[ci].name)
	case hSetCollExisting:
		if !o.open {
			return false
		}
		ci := h.pickColl(o)
		if ci < 0 {
			return false
		}
		vTrace("SetCollection(existing)")
		nc := o.s.SetCollection(o.colls[ci].name, bytes.Compare)
		vAssert("setcoll-existing-nonnil", nc != nil)
		o.colls[ci].c = nc
	case hSetCollNew:
		nn := "b"
		if vParam("emptyname") == 1 {
			nn = ""
		}
		if !o.open || o.find(nn) >= 0 {
			return false
		}
		vTrace("SetCollection(new)")
		nc := o.s.SetCollection(nn, nil)
		o.insert(vNamed{nn, &vModel{cmp: bytes.Compare}, nc})
	case hCloseStore:
		if !o.open {
			return false
		}
		vTrace("Close(store)")
		o.s.Close()
		o.open = false
	case hChurn:
		if h.other == nil {
			return false
		}
		vTrace("Churn(other store)")
		h.churn()
	case hReopen:
		if !o.open || h.f == nil {
			return false
		}
		vTrace("Flush+Reopen")
		vAssert("flush-ok", o.s.Flush() == nil)
		h.flushed = o.snapshotModels()
		var s2 *Store
		var err error
		if h.rc != nil {
			s2, err = NewStoreEx(h.f, h.rc.callbacks())
		} else {
			s2, err = NewStore(h.f)
		}
		vAssert("reopen-ok", vAnd(err == nil, s2 != nil))
		if s2 == nil {
			return false
		}
		o.s.Close()
		o.s = s2
		for i := range o.colls {
			o.colls[i].c = s2.GetCollection(o.colls[i].name)
			vAssert("reopen-coll", o.colls[i].c != nil)
		}
	default:
		return false
	}
	return true
}

// churn: unrelated allocation in another store of the same process, enough to
// reuse anything that was (wrongly) put on the shared free lists.
func (h *vHist) churn() {
	for k := 0; k < 3; k++ {
		h.otherC.SetItem(&Item{Key: []byte{byte('x' + k)}, Val: []byte{0xEE}, Priority: int32(1000 + k)})
	}
	h.otherC.Delete([]byte{'x'})
}

func vOpAllowed(mask, op int) bool { return mask&(1<<uint(op)) != 0 }

// run executes K nondeterministically chosen steps (ops restricted by mask).
func (h *vHist) run(k int, mask int, maxSnaps int, check func(label string)) {
	var allowed []int
	for op := 0; op < hNumOps; op++ {
		if vOpAllowed(mask, op) {
			allowed = append(allowed, op)
		}
	}
	// initial items (not counted in K): lets short histories start from a
	// non-trivial tree
	for n := 0; n < vParam("init"); n++ {
		if !h.step(hSet, maxSnaps) {
			break
		}
	}
	for step := 0; step < k; step++ {
		op := allowed[vChoose("op", 0, len(allowed)-1)]
		if !h.step(op, maxSnaps) {
			vStop("operation not applicable")
		}
		h.steps++
		check("step")
	}
}

// ------------------------------------------------------------------ C04

func vH_C04_hist() {
	h := vNewHist(vParam("store") == 1, nil)
	h.run(vParam("k"), vParam("opmask"), vParam("snaps"), func(l string) { h.checkAll(l) })
	if len(h.snaps) > 0 {
		vCover("had-snapshot")
	}
	vCover("done")
}

// ------------------------------------------------------------------ C12

func vH_C12_hist() {
	h := vNewHist(vParam("store") == 1, nil)
	h.run(vParam("k"), vParam("opmask"), 0, func(l string) { h.checkAll(l) })
	if h.f != nil && h.orig.open && vParam("final_reopen") == 1 {
		// only what was flushed is durable
		s2, err := NewStore(h.f)
		vAssert("final-reopen-ok", vAnd(err == nil, s2 != nil))
		if s2 != nil {
			x := &vHandle{s: s2, colls: h.flushed, open: true}
			hh := &vHist{orig: x}
			hh.checkAll("durable")
		}
		vCover("final-reopen")
	}
	vCover("done")
}

// ------------------------------------------------------------------ C10

// vFreeNodeSet walks the process-wide node free list; asserts it is acyclic.
func vFreeNodeSet(label string) map[*node]bool {
	set := map[*node]bool{}
	for n := freeNodes; n != nil; n = n.next {
		if set[n] {
			vAssert(label+":free-list-has-node-twice", false)
			break
		}
		set[n] = true
	}
	nl := map[*nodeLoc]bool{}
	for x := freeNodeLocs; x != nil; x = x.next {
		if nl[x] {
			vAssert(label+":free-list-has-nodeLoc-twice", false)
			break
		}
		nl[x] = true
	}
	rl := map[*rootNodeLoc]bool{}
	for x := freeRootNodeLocs; x != nil; x = x.next {
		if rl[x] {
			vAssert(label+":free-list-has-rootNodeLoc-twice", false)
			break
		}
		rl[x] = true
	}
	return set
}

func vLiveNotFree(label string, nloc *nodeLoc, free map[*node]bool, depth int) {
	if nloc == nil || depth > 40 {
		return
	}
	n := nloc.node
	if n == nil {
		return
	}
	vAssert(label+":live-node-on-free-list", !free[n])
	if free[n] {
		return
	}
	vLiveNotFree(label, &n.left, free, depth+1)
	vLiveNotFree(label, &n.right, free, depth+1)
}

func (h *vHist) checkFreeLists(label string) {
	free := vFreeNodeSet(label)
	hs := append([]*vHandle{h.orig}, h.snaps...)
	for _, x := range hs {
		if !x.open {
			continue
		}
		for _, n := range x.colls {
			c := x.s.GetCollection(n.name)
			if c == nil || c.root == nil {
				continue
			}
			vLiveNotFree(label, c.root.root, free, 0)
		}
	}
}

func vH_C10_hist() {
	h := vNewHist(vParam("store") == 1, nil)
	o2, err := NewStore(nil)
	vAssert("other-store", vAnd(err == nil, o2 != nil))
	h.other = o2
	h.otherC = o2.SetCollection("z", nil)
	h.run(vParam("k"), vParam("opmask"), vParam("snaps"), func(l string) {
		h.checkFreeLists(l)
		h.checkAll(l)
	})
	// force reuse of anything freed, then look again
	h.churn()
	h.checkFreeLists("after-churn")
	h.checkAll("after-churn")
	vCover("done")
}

// C12: SetCollection on an existing name installs the NEW comparator (nil =
// bytes.Compare) and keeps the items.
func vH_C12_cmp() {
	s, _ := vNewStore(vParam("store") == 1)
	c := s.SetCollection("a", vReverseCompare)
	first := vBytes("k0", 1)
	v0 := vBytes("v0", 1)
	vAssert("set0", c.SetItem(&Item{Key: first, Val: v0, Priority: 9}) == nil)
	var newCmp KeyCompare
	want := vCmpDefault
	switch vChoose("new-comparator", 0, 2) {
	case 0:
		vTrace("SetCollection(existing,nil)")
	case 1:
		vTrace("SetCollection(existing,bytes.Compare)")
		newCmp = vCmpDefault
	case 2:
		vTrace("SetCollection(existing,reverse)")
		newCmp, want = vReverseCompare, vReverseCompare
	}
	c2 := s.SetCollection("a", newCmp)
	vAssert("setcoll-nonnil", c2 != nil)
	m := &vModel{cmp: want}
	m.set(first, v0, 9)
	for i := 0; i < 2; i++ {
		k, v := vBytes(vName("k", i+1), 1), vBytes(vName("v", i+1), 1)
		p := vInt32(vName("p", i+1))
		vAssume(p >= 0)
		vAssert("set", c2.SetItem(&Item{Key: k, Val: v, Priority: p}) == nil)
		m.set(k, v, p)
	}
	vCheckColl("after-comparator-change", c2, m)
	vCover("done")
}
