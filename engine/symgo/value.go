// Copyright 2013 The Go Authors. All rights reserved.
// Use of this source code is governed by a BSD-style
// license that can be found in the LICENSE file.

package main

// Values
//
// All interpreter values are "boxed" in the empty interface, value.
// The range of possible dynamic types within value are:
//
// - bool
// - numbers (all built-in int/float/complex types are distinguished)
// - string
// - map[value]value --- maps for which  usesBuiltinMap(keyType)
//   *hashmap        --- maps for which !usesBuiltinMap(keyType)
// - chan value
// - []value --- slices
// - iface --- interfaces.
// - structure --- structs.  Fields are ordered and accessed by numeric indices.
// - array --- arrays.
// - *value --- pointers.  Careful: *value is a distinct type from *array etc.
// - *ssa.Function \
//   *ssa.Builtin   } --- functions.  A nil 'func' is always of type *ssa.Function.
//   *closure      /
// - tuple --- as returned by Return, Next, "value,ok" modes, etc.
// - iter --- iterators from 'range' over map or string.
// - bad --- a poison pill for locals that have gone out of scope.
// - rtype -- the interpreter's concrete implementation of reflect.Type
// - **deferred -- the address of a frame's defer stack for a Defer._Stack.
//
// Note that nil is not on this list.
//
// Pay close attention to whether or not the dynamic type is a pointer.
// The compiler cannot help you since value is an empty interface.

import (
	"bytes"
	"fmt"
	"go/types"
	"io"
	"sort"
	"strings"
	"sync"
	"unsafe"

	"golang.org/x/tools/go/ssa"
	"golang.org/x/tools/go/types/typeutil"
)

type value interface{}

type tuple []value

type array []value

type iface struct {
	t types.Type // never an "untyped" type
	v value
}

type structure []value

// For map, array, *array, slice, string or channel.
type iter interface {
	// next returns a Tuple (key, value, ok).
	// key and value are unaliased, e.g. copies of the sequence element.
	next() tuple
}

type closure struct {
	Fn  *ssa.Function
	Env []value
}

type bad struct{}

type rtype struct {
	t types.Type
}

// Hash functions and equivalence relation:

// hashString computes the FNV hash of s.
func hashString(s string) int {
	var h uint32
	for i := 0; i < len(s); i++ {
		h ^= uint32(s[i])
		h *= 16777619
	}
	return int(h)
}

var (
	mu     sync.Mutex
	hasher = typeutil.MakeHasher()
)

// hashType returns a hash for t such that
// types.Identical(x, y) => hashType(x) == hashType(y).
func hashType(t types.Type) int {
	return int(hasher.Hash(t))
}

// usesBuiltinMap returns true if the built-in hash function and
// equivalence relation for type t are consistent with those of the
// interpreter's representation of type t.  Such types are: all basic
// types (bool, numbers, string), pointers and channels.
//
// usesBuiltinMap returns false for types that require a custom map
// implementation: interfaces, arrays and structs.
//
// Panic ensues if t is an invalid map key type: function, map or slice.
func usesBuiltinMap(t types.Type) bool {
	switch t := t.(type) {
	case *types.Basic, *types.Chan, *types.Pointer:
		return true
	case *types.Named, *types.Alias:
		return usesBuiltinMap(t.Underlying())
	case *types.Interface, *types.Array, *types.Struct:
		return false
	}
	panic(fmt.Sprintf("invalid map key type: %T", t))
}

func (x array) eq(t types.Type, _y interface{}) bool {
	y := _y.(array)
	tElt := t.Underlying().(*types.Array).Elem()
	for i, xi := range x {
		if !equals(tElt, xi, y[i]) {
			return false
		}
	}
	return true
}

func (x array) hash(t types.Type) int {
	h := 0
	tElt := t.Underlying().(*types.Array).Elem()
	for _, xi := range x {
		h += hash(t, tElt, xi)
	}
	return h
}

func (x structure) eq(t types.Type, _y interface{}) bool {
	y := _y.(structure)
	tStruct := t.Underlying().(*types.Struct)
	for i, n := 0, tStruct.NumFields(); i < n; i++ {
		if f := tStruct.Field(i); !f.Anonymous() {
			if !equals(f.Type(), x[i], y[i]) {
				return false
			}
		}
	}
	return true
}

func (x structure) hash(t types.Type) int {
	tStruct := t.Underlying().(*types.Struct)
	h := 0
	for i, n := 0, tStruct.NumFields(); i < n; i++ {
		if f := tStruct.Field(i); !f.Anonymous() {
			h += hash(t, f.Type(), x[i])
		}
	}
	return h
}

// nil-tolerant variant of types.Identical.
func sameType(x, y types.Type) bool {
	if x == nil {
		return y == nil
	}
	return y != nil && types.Identical(x, y)
}

func (x iface) eq(t types.Type, _y interface{}) bool {
	y := _y.(iface)
	return sameType(x.t, y.t) && (x.t == nil || equals(x.t, x.v, y.v))
}

func (x iface) hash(outer types.Type) int {
	return hashType(x.t)*8581 + hash(outer, x.t, x.v)
}

func (x rtype) hash(_ types.Type) int {
	return hashType(x.t)
}

func (x rtype) eq(_ types.Type, y interface{}) bool {
	return types.Identical(x.t, y.(rtype).t)
}

// equals returns true iff x and y are equal according to Go's
// linguistic equivalence relation for type t.
// In a well-typed program, the dynamic types of x and y are
// guaranteed equal.
func equals(t types.Type, x, y value) bool {
	switch x := x.(type) {
	case bool:
		return x == y.(bool)
	case int:
		return x == y.(int)
	case int8:
		return x == y.(int8)
	case int16:
		return x == y.(int16)
	case int32:
		return x == y.(int32)
	case int64:
		return x == y.(int64)
	case uint:
		return x == y.(uint)
	case uint8:
		return x == y.(uint8)
	case uint16:
		return x == y.(uint16)
	case uint32:
		return x == y.(uint32)
	case uint64:
		return x == y.(uint64)
	case uintptr:
		return x == y.(uintptr)
	case float32:
		return x == y.(float32)
	case float64:
		return x == y.(float64)
	case complex64:
		return x == y.(complex64)
	case complex128:
		return x == y.(complex128)
	case string:
		return x == y.(string)
	case *value:
		return x == y.(*value)
	case *vchan:
		return x == y.(*vchan)
	case structure:
		return x.eq(t, y)
	case array:
		return x.eq(t, y)
	case iface:
		return x.eq(t, y)
	case rtype:
		return x.eq(t, y)
	}

	// Since map, func and slice don't support comparison, this
	// case is only reachable if one of x or y is literally nil
	// (handled in eqnil) or via interface{} values.
	panic(fmt.Sprintf("comparing uncomparable type %s", t))
}

// Returns an integer hash of x such that equals(x, y) => hash(x) == hash(y).
// The outer type is used only for the "unhashable" panic message.
func hash(outer, t types.Type, x value) int {
	switch x := x.(type) {
	case bool:
		if x {
			return 1
		}
		return 0
	case int:
		return x
	case int8:
		return int(x)
	case int16:
		return int(x)
	case int32:
		return int(x)
	case int64:
		return int(x)
	case uint:
		return int(x)
	case uint8:
		return int(x)
	case uint16:
		return int(x)
	case uint32:
		return int(x)
	case uint64:
		return int(x)
	case uintptr:
		return int(x)
	case float32:
		return int(x)
	case float64:
		return int(x)
	case complex64:
		return int(real(x))
	case complex128:
		return int(real(x))
	case string:
		return hashString(x)
	case *value:
		return int(uintptr(unsafe.Pointer(x)))
	case *vchan:
		return int(uintptr(unsafe.Pointer(x)))
	case structure:
		return x.hash(t)
	case array:
		return x.hash(t)
	case iface:
		return x.hash(t)
	case rtype:
		return x.hash(t)
	}
	panic(fmt.Sprintf("unhashable type %v", outer))
}

// reflect.Value struct values don't have a fixed shape, since the
// payload can be a scalar or an aggregate depending on the instance.
// So store (and load) can't simply use recursion over the shape of the
// rhs value, or the lhs, to copy the value; we need the static type
// information.  (We can't make reflect.Value a new basic data type
// because its "structness" is exposed to Go programs.)

// load returns the value of type T in *addr.
func load(T types.Type, addr *value) value {
	switch T := T.Underlying().(type) {
	case *types.Struct:
		v := (*addr).(structure)
		a := make(structure, len(v))
		for i := range a {
			a[i] = load(T.Field(i).Type(), &v[i])
		}
		return a
	case *types.Array:
		v := (*addr).(array)
		a := make(array, len(v))
		for i := range a {
			a[i] = load(T.Elem(), &v[i])
		}
		return a
	default:
		return *addr
	}
}

// store stores value v of type T into *addr.
func store(T types.Type, addr *value, v value) {
	switch T := T.Underlying().(type) {
	case *types.Struct:
		lhs := (*addr).(structure)
		rhs := v.(structure)
		for i := range lhs {
			store(T.Field(i).Type(), &lhs[i], rhs[i])
		}
	case *types.Array:
		lhs := (*addr).(array)
		rhs := v.(array)
		for i := range lhs {
			store(T.Elem(), &lhs[i], rhs[i])
		}
	default:
		*addr = v
	}
}

// Prints in the style of built-in println.
// (More or less; in gc println is actually a compiler intrinsic and
// can distinguish println(1) from println(interface{}(1)).)
func writeValue(buf *bytes.Buffer, v value) {
	switch v := v.(type) {
	case nil, bool, int, int8, int16, int32, int64, uint, uint8, uint16, uint32, uint64, uintptr, float32, float64, complex64, complex128, string:
		fmt.Fprintf(buf, "%v", v)

	case sym:
		fmt.Fprintf(buf, "<sym %s>", v.t)

	case *omap:
		buf.WriteString("map[")
		sep := ""
		if v != nil {
			for _, k := range v.keys() {
				buf.WriteString(sep)
				sep = " "
				writeValue(buf, k)
				buf.WriteString(":")
				writeValue(buf, v.m[k].v)
			}
		}
		buf.WriteString("]")

	case *hashmap:
		buf.WriteString("map[")
		sep := " "
		for _, e := range v.entries() {
			for e != nil {
				buf.WriteString(sep)
				sep = " "
				writeValue(buf, e.key)
				buf.WriteString(":")
				writeValue(buf, e.value)
				e = e.next
			}
		}
		buf.WriteString("]")

	case *vchan:
		fmt.Fprintf(buf, "%p", v) // (an address)

	case *value:
		if v == nil {
			buf.WriteString("<nil>")
		} else {
			fmt.Fprintf(buf, "%p", v)
		}

	case iface:
		fmt.Fprintf(buf, "(%s, ", v.t)
		writeValue(buf, v.v)
		buf.WriteString(")")

	case structure:
		buf.WriteString("{")
		for i, e := range v {
			if i > 0 {
				buf.WriteString(" ")
			}
			writeValue(buf, e)
		}
		buf.WriteString("}")

	case array:
		buf.WriteString("[")
		for i, e := range v {
			if i > 0 {
				buf.WriteString(" ")
			}
			writeValue(buf, e)
		}
		buf.WriteString("]")

	case []value:
		buf.WriteString("[")
		for i, e := range v {
			if i > 0 {
				buf.WriteString(" ")
			}
			writeValue(buf, e)
		}
		buf.WriteString("]")

	case *ssa.Function, *ssa.Builtin, *closure:
		fmt.Fprintf(buf, "%p", v) // (an address)

	case rtype:
		buf.WriteString(v.t.String())

	case tuple:
		// Unreachable in well-formed Go programs
		buf.WriteString("(")
		for i, e := range v {
			if i > 0 {
				buf.WriteString(", ")
			}
			writeValue(buf, e)
		}
		buf.WriteString(")")

	default:
		fmt.Fprintf(buf, "<%T>", v)
	}
}

// Implements printing of Go values in the style of built-in println.
func toString(v value) string {
	var b bytes.Buffer
	writeValue(&b, v)
	return b.String()
}

// ------------------------------------------------------------------------
// Iterators

type stringIter struct {
	*strings.Reader
	i int
}

func (it *stringIter) next() tuple {
	okv := make(tuple, 3)
	ch, n, err := it.ReadRune()
	ok := err != io.EOF
	okv[0] = ok
	if ok {
		okv[1] = it.i
		okv[2] = ch
	}
	it.i += n
	return okv
}

type mapIter struct {
	m    *omap
	keys []value
	i    int
}

func (it *mapIter) next() tuple {
	for it.i < len(it.keys) {
		k := it.keys[it.i]
		it.i++
		if e, ok := it.m.m[k]; ok {
			return []value{true, k, e.v}
		}
	}
	return []value{false, nil, nil}
}

type hashmapIter struct {
	ents []*entry
	i    int
	cur  *entry
}

func (it *hashmapIter) next() tuple {
	for {
		if it.cur != nil {
			k, v := it.cur.key, it.cur.value
			it.cur = it.cur.next
			return []value{true, k, v}
		}
		if it.i >= len(it.ents) {
			return []value{false, nil, nil}
		}
		it.cur = it.ents[it.i]
		it.i++
	}
}

// sym is a symbolic scalar: a bit-vector (or Bool) term tagged with the Go
// basic kind it stands for (needed for signedness and width).
type sym struct {
	t *Term
	k types.BasicKind
}

// omap is a deterministic replacement for map[value]value: iteration is in
// sorted order for string keys and insertion order otherwise, so that
// re-execution of a decision prefix is reproducible.
type omapEntry struct {
	v   value
	seq int
}

type omap struct {
	m   map[value]omapEntry
	seq int
}

func newOmap() *omap { return &omap{m: make(map[value]omapEntry)} }

func (m *omap) set(k, v value) {
	if e, ok := m.m[k]; ok {
		m.m[k] = omapEntry{v, e.seq}
		return
	}
	m.seq++
	m.m[k] = omapEntry{v, m.seq}
}

func (m *omap) get(k value) (value, bool) {
	if m == nil {
		return nil, false
	}
	e, ok := m.m[k]
	return e.v, ok
}

func (m *omap) del(k value) {
	if m != nil {
		delete(m.m, k)
	}
}

func (m *omap) len() int {
	if m == nil {
		return 0
	}
	return len(m.m)
}

func (m *omap) keys() []value {
	if m == nil {
		return nil
	}
	ks := make([]value, 0, len(m.m))
	allStr := true
	for k := range m.m {
		ks = append(ks, k)
		if _, ok := k.(string); !ok {
			allStr = false
		}
	}
	if allStr {
		sort.Slice(ks, func(a, b int) bool { return ks[a].(string) < ks[b].(string) })
	} else {
		sort.Slice(ks, func(a, b int) bool { return m.m[ks[a]].seq < m.m[ks[b]].seq })
	}
	return ks
}
