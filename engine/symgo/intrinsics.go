package main

// Harness intrinsics: body-less functions declared in the harness sources
// (package gkvlite, overlay) that the engine intercepts.

import (
	"fmt"
	"go/token"
	"go/types"
	"strings"
)

const tokenADD = token.ADD

func sanitize(s string) string {
	var b strings.Builder
	for _, c := range s {
		if c >= 'a' && c <= 'z' || c >= 'A' && c <= 'Z' || c >= '0' && c <= '9' || c == '_' {
			b.WriteRune(c)
		} else {
			b.WriteByte('_')
		}
	}
	return b.String()
}

// fresh creates a new symbolic scalar of kind k and logs it for replay.
func (i *interpreter) fresh(name string, k types.BasicKind) value {
	p := i.path
	w := kindWidth(k)
	if p.replay != nil {
		// engine-concrete replay: inputs come from the recorded counterexample
		var bits uint64
		if idx := len(p.nondets); idx < len(p.replay.nondets) {
			bits = p.replay.nondets[idx]
		}
		var t *Term
		if k == types.Bool {
			t = i.tt.Bool(bits != 0)
		} else {
			t = i.tt.Const(w, bits)
		}
		p.nondets = append(p.nondets, nondetRec{Name: name, Kind: types.Typ[k].Name(), W: w, term: t})
		return i.box(t, k)
	}
	vn := fmt.Sprintf("n%d_%s", len(p.nondets), sanitize(name))
	t := i.tt.Var(w, vn)
	p.nondets = append(p.nondets, nondetRec{Name: name, Kind: types.Typ[k].Name(), W: w, term: t})
	return sym{t, k}
}

func registerIntrinsics() {
	reg := func(name string, f externalFn) { externals[pkgPath+"."+name] = f }
	mk := func(k types.BasicKind) externalFn {
		return func(fr *frame, a []value) value { return fr.i.fresh(a[0].(string), k) }
	}
	reg("vInt32", mk(types.Int32))
	reg("vInt64", mk(types.Int64))
	reg("vInt", mk(types.Int))
	reg("vUint8", mk(types.Uint8))
	reg("vUint16", mk(types.Uint16))
	reg("vUint32", mk(types.Uint32))
	reg("vUint64", mk(types.Uint64))
	reg("vBool", mk(types.Bool))
	reg("vBytes", func(fr *frame, a []value) value {
		n := fr.i.asInt(a[1])
		name := a[0].(string)
		s := make([]value, n)
		for k := range s {
			s[k] = fr.i.fresh(fmt.Sprintf("%s[%d]", name, k), types.Uint8)
		}
		return s
	})
	reg("vChoose", func(fr *frame, a []value) value {
		lo, hi := fr.i.asInt(a[1]), fr.i.asInt(a[2])
		return int(fr.i.choose(int64(lo), int64(hi)))
	})
	reg("vAssume", func(fr *frame, a []value) value {
		t, _ := fr.i.term(a[0])
		fr.i.assume(t)
		return nil
	})
	reg("vAssert", func(fr *frame, a []value) value {
		i := fr.i
		t, _ := i.term(a[1])
		p := i.path
		if len(p.decisions) < len(p.prefix) {
			// already decided by the parent path under the same path
			// condition; keep the path condition identical
			if t.op == opFalse {
				panic(engineAbort{abStop, "assertion failed (replayed prefix)"})
			}
			p.addPC(t)
			return nil
		}
		i.assertTerm(a[0].(string), t)
		return nil
	})
	reg("vCover", func(fr *frame, a []value) value {
		fr.i.path.covers[a[0].(string)] = true
		if a[0].(string) == "done" && fr.i.P.params["twin"] == 1 && fr.i.path.replay == nil {
			// vacuity twin: the end of the harness must be reachable, i.e.
			// a final assert(false) must come back violated
			fr.i.recordViolation("assert", "vacuity-twin-reached-the-end", "", fr.i.path.model)
			panic(engineAbort{abStop, "vacuity twin"})
		}
		return nil
	})
	reg("vTrace", func(fr *frame, a []value) value {
		fr.i.path.trace = append(fr.i.path.trace, a[0].(string))
		return nil
	})
	reg("vTraceInt", func(fr *frame, a []value) value {
		fr.i.path.trace = append(fr.i.path.trace, fmt.Sprintf("%s=%d", a[0].(string), fr.i.asInt(a[1])))
		return nil
	})
	reg("vParam", func(fr *frame, a []value) value {
		name := a[0].(string)
		v, ok := fr.i.P.params[name]
		if !ok {
			panic(engineAbort{abInconclusive, "harness parameter " + name + " not configured"})
		}
		return v
	})
	reg("vSymbolic", func(fr *frame, a []value) value { return true })
	// branch-free helpers for harness models
	reg("vAnd", func(fr *frame, a []value) value {
		x, _ := fr.i.term(a[0])
		y, _ := fr.i.term(a[1])
		return fr.i.box(fr.i.tt.And(x, y), types.Bool)
	})
	reg("vOr", func(fr *frame, a []value) value {
		x, _ := fr.i.term(a[0])
		y, _ := fr.i.term(a[1])
		return fr.i.box(fr.i.tt.Or(x, y), types.Bool)
	})
	reg("vNot", func(fr *frame, a []value) value {
		x, _ := fr.i.term(a[0])
		return fr.i.box(fr.i.tt.Not(x), types.Bool)
	})
	ite := func(fr *frame, a []value) value {
		c, _ := fr.i.term(a[0])
		switch c.op {
		case opTrue:
			return a[1]
		case opFalse:
			return a[2]
		}
		x, k := fr.i.term(a[1])
		y, _ := fr.i.term(a[2])
		return fr.i.box(fr.i.tt.Ite(c, x, y), k)
	}
	for _, n := range []string{"vIteInt", "vIteInt32", "vIteInt64", "vIteUint8", "vIteUint64", "vIteBool"} {
		reg(n, ite)
	}
	reg("vBytesEq", extBytesEqual)
	reg("vBytesCmp", extBytesCompare)
	reg("vConcInt", func(fr *frame, a []value) value { return fr.i.asInt(a[0]) })
	reg("vIsConcrete", func(fr *frame, a []value) value { return !isSym(a[0]) })
	reg("vYield", func(fr *frame, a []value) value {
		fr.i.sched.yield(fr, a[0].(string))
		return nil
	})
	reg("vYieldAll", func(fr *frame, a []value) value {
		s := fr.i.sched
		var others []*gor
		for _, g := range s.runnable() {
			if g != s.cur {
				others = append(others, g)
			}
		}
		if len(others) == 0 {
			return nil
		}
		to := others[0]
		if len(others) > 1 {
			to = others[fr.i.choose(0, int64(len(others)-1))]
		}
		s.switchTo(s.cur, to)
		return nil
	})
	reg("vLiveGoroutines", func(fr *frame, a []value) value { return fr.i.sched.live() })
	reg("vBlockUntil", func(fr *frame, a []value) value {
		// vBlockUntil(p *bool): park until *p is true (free switch)
		p := a[0].(*value)
		fr.i.sched.block(fr, func() bool { b, _ := (*p).(bool); return b }, "vBlockUntil")
		return nil
	})
	reg("vPreemptions", func(fr *frame, a []value) value { return fr.i.sched.preemptions })
	reg("vInconclusive", func(fr *frame, a []value) value {
		panic(engineAbort{abInconclusive, "harness: " + a[0].(string)})
	})
	reg("vStop", func(fr *frame, a []value) value {
		panic(engineAbort{abStop, "harness stopped the path: " + a[0].(string)})
	})
}
