package gkvlite

// C03: crash atomicity.  A crash image is the file after a prefix of the
// ordered sequence of file writes plus a byte prefix of the write in flight.

type vDurable struct {
	m   *vModel
	end int64
}

// vCrashHistory: np completed flushes of symbolic data; returns the store,
// file and the stack of durable states.
func vCrashHistory(np int, vlen int) (*Store, *Collection, *vFile, *vModel, []vDurable) {
	s, f := vNewStore(true)
	c := s.SetCollection("a", nil)
	m := &vModel{cmp: vCmpDefault}
	var stack []vDurable
	for i := 0; i < np; i++ {
		k, v := vBytes(vName("hk", i), 1), vBytes(vName("hv", i), vlen)
		p := vInt32(vName("hp", i))
		vAssume(p >= 0)
		vAssert("hist-set", c.SetItem(&Item{Key: k, Val: v, Priority: p}) == nil)
		m.set(k, v, p)
		vAssert("hist-flush", s.Flush() == nil)
		stack = append(stack, vDurable{m.clone(), int64(len(f.data))})
	}
	return s, c, f, m, stack
}

func vExpectRecovered(label string, img *vFile, stack []vDurable) *Store {
	s2, err := NewStore(img)
	if len(stack) == 0 {
		// no flush ever completed: an empty store or the documented error
		if err != nil {
			vCover("no-roots-error")
			return nil
		}
		vAssert(label+":empty-store", vAnd(s2 != nil, len(s2.GetCollectionNames()) == 0))
		vCover("recovered-empty")
		return s2
	}
	vAssert(label+":open-ok", vAnd(err == nil, s2 != nil))
	if s2 == nil {
		return nil
	}
	want := stack[len(stack)-1]
	names := s2.GetCollectionNames()
	vAssert(label+":names", vAnd(len(names) == 1, len(names) != 1 || names[0] == "a"))
	c2 := s2.GetCollection("a")
	vAssert(label+":coll", c2 != nil)
	if c2 != nil {
		vCheckColl(label, c2, want.m)
	}
	vCover("recovered-last-flush")
	return s2
}

func vH_C03_torn() {
	np := vChoose("prior-flushes", 0, vParam("prior"))
	vlen := vParam("vlen")
	s, c, f, m, stack := vCrashHistory(np, vlen)
	// the flush in flight
	nm := vChoose("inflight-mutations", 1, vParam("inflight"))
	for i := 0; i < nm; i++ {
		k, v := vBytes(vName("ck", i), 1), vBytes(vName("cv", i), vlen)
		p := vInt32(vName("cp", i))
		vAssume(p >= 0)
		vAssert("inflight-set", c.SetItem(&Item{Key: k, Val: v, Priority: p}) == nil)
		m.set(k, v, p)
	}
	f.resetLogs()
	start := int64(len(f.data))
	vAssert("inflight-flush", s.Flush() == nil)
	// writes are sequential appends
	pos := start
	for _, w := range f.writes {
		if w.off != pos {
			// the crash images below are prefixes of the final file, which is
			// only right for sequential appends: otherwise say so, do not guess
			vInconclusive("Flush does not append sequentially; crash images cannot be rebuilt as prefixes")
		}
		pos += int64(w.n)
	}
	nw := len(f.writes)
	j := vChoose("crash-at-write", 0, nw-1)
	b := 0
	if f.writes[j].n > 1 {
		b = vChoose("crash-at-byte", 0, f.writes[j].n-1)
	}
	cut := f.writes[j].off + int64(b)
	vTraceInt("crash-write", j)
	vTraceInt("crash-byte", b)
	img := &vFile{data: append([]byte(nil), f.data[:cut]...)}
	if j == nw-1 {
		vCover("crash-inside-root-record")
	} else {
		vCover("crash-inside-data")
	}
	s2 := vExpectRecovered("torn", img, stack)
	// the recovered store accepts further mutations and flushes (CONT)
	if s2 != nil && vChoose("continue", 0, 1) == 1 {
		c2 := s2.SetCollection("a", nil)
		cur := &vModel{cmp: vCmpDefault}
		if len(stack) > 0 {
			c2 = s2.GetCollection("a")
			cur = stack[len(stack)-1].m.clone()
		}
		k, v := vBytes("nk", 1), vBytes("nv", 1)
		p := vInt32("np")
		vAssume(p >= 0)
		vAssert("cont-set", c2.SetItem(&Item{Key: k, Val: v, Priority: p}) == nil)
		cur.set(k, v, p)
		vAssert("cont-flush", s2.Flush() == nil)
		s3, err := NewStore(img)
		vAssert("cont-reopen", vAnd(err == nil, s3 != nil))
		if s3 != nil && s3.GetCollection("a") != nil {
			vCheckColl("cont", s3.GetCollection("a"), cur)
		}
		vCover("continued")
	}
	vCover("done")
}

// CRASH-JUNK: durable prefix P followed by an arbitrary (fully symbolic) tail
// shorter than the smallest complete root record: open(P‖T) == open(P).
func vH_C03_junk() {
	np := vChoose("prior-flushes", 0, vParam("prior"))
	_, _, f, _, stack := vCrashHistory(np, vParam("vlen"))
	t := vChoose("junk-len", vParam("junkmin"), vParam("junkmax"))
	vTraceInt("junk", t)
	img := &vFile{data: append([]byte(nil), f.data...)}
	img.data = append(img.data, vBytes("junk", t)...)
	s2 := vExpectRecovered("junk", img, stack)
	if s2 != nil && vChoose("continue", 0, 1) == 1 {
		c2 := s2.SetCollection("a", nil)
		cur := &vModel{cmp: vCmpDefault}
		if len(stack) > 0 {
			c2 = s2.GetCollection("a")
			cur = stack[len(stack)-1].m.clone()
		}
		k, v := vBytes("nk", 1), vBytes("nv", 1)
		vAssert("cont-set", c2.SetItem(&Item{Key: k, Val: v, Priority: 5}) == nil)
		cur.set(k, v, 5)
		vAssert("cont-flush", s2.Flush() == nil)
		s3, err := NewStore(img)
		vAssert("cont-reopen", vAnd(err == nil, s3 != nil))
		if s3 != nil && s3.GetCollection("a") != nil {
			vCheckColl("cont", s3.GetCollection("a"), cur)
		}
		vCover("continued")
	}
	vCover("done")
}

// ROOT-ACCEPT kernel: a fully symbolic candidate root record (only the JSON
// "{}" is concrete) after k bytes of junk.  NewStore must accept it exactly
// when the independent decoder says it is a complete, self-consistent root
// record ending at the end of the file.
func vH_C03_accept() {
	k := vChoose("junk-before", 0, vParam("junkmax"))
	img := &vFile{}
	img.data = append(img.data, vBytes("pre", k)...)
	rec := vBytes("rec", 46)
	rec[20], rec[21] = '{', '}'
	img.data = append(img.data, rec...)
	end := int64(len(img.data))
	s, err := NewStore(img)
	dec := vDecode(img.data, end)
	if err == nil {
		vAssert("accepted-store-nonnil", s != nil)
		if s != nil && s.getSize() == end {
			// the store settled on a root record ending at the end of the file
			vAssert("accepted-a-record-that-is-not-a-valid-root", dec.ok)
			vCover("accepted")
		} else {
			vCover("accepted-earlier")
		}
	} else {
		vAssert("rejected-a-valid-root-record", !dec.ok)
		vCover("rejected")
	}
	vCover("done")
}
