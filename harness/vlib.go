package gkvlite

// Shared harness components (executed symbolically by the engine, natively
// during replay): the StoreFile under the store, the reference model, the
// direct constructor of arbitrary valid pre-states, and observers.

import (
	"bytes"
	"errors"
	"io"
	"os"
	"time"
)

// ------------------------------------------------------------------ vFile

type vIO struct {
	off int64
	n   int
}

type vFile struct {
	data   []byte
	reads  []vIO
	writes []vIO
	truncs []int64
	calls  int // ReadAt + WriteAt + Stat + Truncate calls so far

	failAt  int  // fail the failAt-th call from now (1-based); 0 = never
	torn    bool // a failing WriteAt first writes a prefix
	tornLen int  // ... of this length (may be symbolic)
	failed  int  // number of injected failures so far
	yield   bool // every call is a scheduling point (concurrency harnesses)
}

var errInjected = errors.New("injected I/O failure")

func (f *vFile) tick() bool {
	f.calls++
	if f.yield {
		vYield("file")
	}
	if f.failAt > 0 {
		f.failAt--
		if f.failAt == 0 {
			f.failed++
			return true
		}
	}
	return false
}

func (f *vFile) ReadAt(p []byte, off int64) (int, error) {
	if f.tick() {
		return 0, errInjected
	}
	f.reads = append(f.reads, vIO{off, len(p)})
	if off < 0 {
		return 0, errors.New("negative offset")
	}
	if len(p) == 0 {
		return 0, nil // as os.File.ReadAt: an empty read succeeds, even at EOF
	}
	if off >= int64(len(f.data)) {
		return 0, io.EOF
	}
	n := copy(p, f.data[off:])
	if n < len(p) {
		return n, io.EOF
	}
	return n, nil
}

func (f *vFile) WriteAt(p []byte, off int64) (int, error) {
	fail := f.tick()
	if off < 0 {
		return 0, errors.New("negative offset")
	}
	if fail && !f.torn {
		return 0, errInjected
	}
	f.writes = append(f.writes, vIO{off, len(p)})
	end := int(off) + len(p)
	for len(f.data) < end {
		f.data = append(f.data, 0)
	}
	if fail {
		// torn write: cell k takes the new byte iff k < tornLen
		for k := 0; k < len(p); k++ {
			f.data[int(off)+k] = vIteUint8(k < f.tornLen, p[k], f.data[int(off)+k])
		}
		return 0, errInjected
	}
	copy(f.data[off:], p)
	return len(p), nil
}

func (f *vFile) Truncate(size int64) error {
	if f.tick() {
		return errInjected
	}
	f.truncs = append(f.truncs, size)
	if size < 0 {
		return errors.New("negative size")
	}
	for int64(len(f.data)) < size {
		f.data = append(f.data, 0)
	}
	f.data = f.data[:size]
	return nil
}

type vFileInfo struct{ size int64 }

func (i *vFileInfo) Name() string       { return "vfile" }
func (i *vFileInfo) Size() int64        { return i.size }
func (i *vFileInfo) Mode() os.FileMode  { return 0644 }
func (i *vFileInfo) ModTime() time.Time { return time.Time{} }
func (i *vFileInfo) IsDir() bool        { return false }
func (i *vFileInfo) Sys() interface{}   { return nil }

func (f *vFile) Stat() (os.FileInfo, error) {
	if f.tick() {
		return nil, errInjected
	}
	return &vFileInfo{int64(len(f.data))}, nil
}

func (f *vFile) clone() *vFile {
	g := &vFile{}
	g.data = append([]byte(nil), f.data...)
	return g
}

func (f *vFile) resetLogs() {
	f.reads, f.writes, f.truncs = nil, nil, nil
}

// ------------------------------------------------------------------ model

type vEnt struct {
	key, val []byte
	prio     int32
}

// vModel is a sorted association list (sorted under cmp).
type vModel struct {
	ents []vEnt
	cmp  KeyCompare
}

func (m *vModel) clone() *vModel {
	n := &vModel{cmp: m.cmp}
	n.ents = append([]vEnt(nil), m.ents...)
	return n
}

func (m *vModel) find(key []byte) int {
	for i := range m.ents {
		if m.cmp(key, m.ents[i].key) == 0 {
			return i
		}
	}
	return -1
}

func (m *vModel) set(key, val []byte, prio int32) {
	pos := len(m.ents)
	for i := range m.ents {
		c := m.cmp(key, m.ents[i].key)
		if c == 0 {
			m.ents[i] = vEnt{key, val, prio}
			return
		}
		if c < 0 {
			pos = i
			break
		}
	}
	m.ents = append(m.ents, vEnt{})
	copy(m.ents[pos+1:], m.ents[pos:])
	m.ents[pos] = vEnt{key, val, prio}
}

func (m *vModel) del(key []byte) bool {
	i := m.find(key)
	if i < 0 {
		return false
	}
	m.ents = append(m.ents[:i], m.ents[i+1:]...)
	return true
}

func (m *vModel) totals() (uint64, uint64) {
	var b uint64
	for _, e := range m.ents {
		b += uint64(len(e.key) + len(e.val))
	}
	return uint64(len(m.ents)), b
}

// ------------------------------------------------------------------ observers

type vSeen struct {
	key, val []byte
	prio     int32
	depth    uint64
}

func vAscendAll(c *Collection, withValue bool) ([]vSeen, error) {
	var out []vSeen
	// start at the minimum under the collection's own comparator (a nil target
	// is the minimum only for bytes.Compare-like orders)
	mi, err := c.MinItem(false)
	if err != nil || mi == nil {
		return nil, err
	}
	c.store.ItemDecRef(c, mi) // the caller releases what MinItem handed out
	err = c.VisitItemsAscendEx(mi.Key, withValue, func(i *Item, depth uint64) bool {
		out = append(out, vSeen{i.Key, i.Val, i.Priority, depth})
		return true
	})
	return out, err
}

// vCheckColl: the full contents of c equal the model (keys, values,
// priorities, order), GetTotals is exact, Min/Max are the extremes.
func vCheckColl(label string, c *Collection, m *vModel) {
	seen, err := vAscendAll(c, true)
	vAssert(label+":visit-noerr", err == nil)
	vAssert(label+":count", len(seen) == len(m.ents))
	if len(seen) != len(m.ents) {
		return
	}
	for i := range seen {
		vAssert(label+":key", vBytesEq(seen[i].key, m.ents[i].key))
		vAssert(label+":val", vAnd(seen[i].val != nil, vBytesEq(seen[i].val, m.ents[i].val)))
		vAssert(label+":prio", seen[i].prio == m.ents[i].prio)
	}
	n, b, err := c.GetTotals()
	mn, mb := m.totals()
	vAssert(label+":totals", vAnd(err == nil, vAnd(n == mn, b == mb)))
	mi, err := c.MinItem(true)
	vAssert(label+":min-noerr", err == nil)
	ma, err2 := c.MaxItem(true)
	vAssert(label+":max-noerr", err2 == nil)
	if len(m.ents) == 0 {
		vAssert(label+":minmax-nil", vAnd(mi == nil, ma == nil))
	} else {
		vAssert(label+":minmax-nonnil", vAnd(mi != nil, ma != nil))
		if mi != nil && ma != nil {
			last := len(m.ents) - 1
			vAssert(label+":min", vAnd(vBytesEq(mi.Key, m.ents[0].key), vBytesEq(mi.Val, m.ents[0].val)))
			vAssert(label+":max", vAnd(vBytesEq(ma.Key, m.ents[last].key), vBytesEq(ma.Val, m.ents[last].val)))
		}
	}
}

// vInvariant walks the in-memory/persisted tree directly: search order under
// cmp, exact aggregates at every node; optionally heap order.  Returns the
// number of items.  (Loads nodes/items through the real read paths.)
func vInvariant(label string, c *Collection, heap bool) {
	rnl := c.rootAddRef()
	defer c.rootDecRef(rnl)
	vWalkInv(label, c, rnl.root, nil, nil, heap, 0, false)
}

func vWalkInv(label string, c *Collection, nloc *nodeLoc, lo, hi []byte, heap bool, parentPrio int32, hasParent bool) (uint64, uint64) {
	if nloc.isEmpty() {
		return 0, 0
	}
	n, err := nloc.read(c.store)
	vAssert(label+":node-read", vAnd(err == nil, n != nil))
	if n == nil {
		return 0, 0
	}
	it, err := n.item.read(c, true)
	vAssert(label+":item-read", vAnd(err == nil, it != nil))
	if it == nil {
		return 0, 0
	}
	if lo != nil {
		vAssert(label+":order-lo", c.compare(lo, it.Key) < 0)
	}
	if hi != nil {
		vAssert(label+":order-hi", c.compare(it.Key, hi) < 0)
	}
	if heap && hasParent {
		vAssert(label+":heap", it.Priority <= parentPrio)
	}
	ln, lb := vWalkInv(label, c, &n.left, lo, it.Key, heap, it.Priority, true)
	rn, rb := vWalkInv(label, c, &n.right, it.Key, hi, heap, it.Priority, true)
	num := ln + rn + 1
	byt := lb + rb + uint64(len(it.Key)+len(it.Val))
	vAssert(label+":numNodes", n.numNodes == num)
	vAssert(label+":numBytes", n.numBytes == byt)
	return num, byt
}

var vCmpDefault KeyCompare = bytes.Compare

func vReverseCompare(a, b []byte) int { return bytes.Compare(b, a) }

// ------------------------------------------------------------------ pre-state

type vCfg struct {
	n       int  // exact number of items
	file    bool // file-backed store
	cache   int  // 0: everything dirty; 1: all cache states; 2: all persisted, arbitrary load/evict states
	klen    int  // max key length (1..klen, chosen per key)
	vlen    int  // max value length (vlenMin..vlen, chosen per item)
	vlenMin int
	variant int // 0 weak, 1 heap order, 2 heap order + distinct priorities
	cmp     KeyCompare
	name    string
	cb      *StoreCallbacks // optional callbacks the store is created with
}

type vPre struct {
	s     *Store
	c     *Collection
	f     *vFile
	m     *vModel
	depth []uint64 // constructor depth per model entry
	cfg   vCfg
}

type vBuilder struct {
	pre   *vPre
	keys  [][]byte
	vals  [][]byte
	prios []int32
}

func vNewStore(file bool) (*Store, *vFile) {
	return vNewStoreCb(file, nil)
}

func vNewStoreCb(file bool, cb *StoreCallbacks) (*Store, *vFile) {
	var cbs StoreCallbacks
	if cb != nil {
		cbs = *cb
	}
	if !file {
		s, err := NewStoreEx(nil, cbs)
		vAssert("newstore-mem", vAnd(err == nil, s != nil))
		return s, nil
	}
	f := &vFile{}
	s, err := NewStoreEx(f, cbs)
	vAssert("newstore-file", vAnd(err == nil, s != nil))
	return s, f
}

func vName(base string, i int) string {
	return base + string(rune('0'+i))
}

// vBuildPre constructs an arbitrary valid quiescent store state with cfg.n
// items directly (see DESIGN §3.3).
func vBuildPre(cfg vCfg) *vPre {
	if cfg.cmp == nil {
		cfg.cmp = bytes.Compare
	}
	if cfg.name == "" {
		cfg.name = "a"
	}
	s, f := vNewStoreCb(cfg.file, cfg.cb)
	c := s.SetCollection(cfg.name, cfg.cmp)
	pre := &vPre{s: s, c: c, f: f, cfg: cfg, m: &vModel{cmp: cfg.cmp}}
	b := &vBuilder{pre: pre}
	for i := 0; i < cfg.n; i++ {
		kl := 1
		if cfg.klen > 1 {
			kl = vChoose("klen", 1, cfg.klen)
		}
		vl := cfg.vlen
		if cfg.vlenMin < cfg.vlen {
			vl = vChoose("vlen", cfg.vlenMin, cfg.vlen)
		}
		k := vBytes(vName("k", i), kl)
		v := vBytes(vName("v", i), vl)
		p := vInt32(vName("p", i))
		vAssume(p >= 0)
		if i > 0 {
			vAssume(cfg.cmp(b.keys[i-1], k) < 0)
		}
		if cfg.variant == 2 {
			for j := 0; j < i; j++ {
				vAssume(b.prios[j] != p)
			}
		}
		b.keys = append(b.keys, k)
		b.vals = append(b.vals, v)
		b.prios = append(b.prios, p)
		pre.m.ents = append(pre.m.ents, vEnt{k, v, p})
	}
	pre.depth = make([]uint64, cfg.n)
	if cfg.n == 0 {
		return pre
	}
	rootLoc, _ := b.build(0, cfg.n-1, 0)
	rnl := c.rootAddRef()
	rnlNew := c.mkRootNodeLoc(rootLoc)
	ok := c.rootCAS(rnl, rnlNew)
	vAssert("pre-rootcas", ok)
	c.rootDecRef(rnl)
	c.rootDecRef(rnl)
	if cfg.file && cfg.cache > 0 {
		if cfg.cache == 2 {
			err := c.write(rnlNew.root)
			vAssert("pre-write", err == nil)
			b.reload(rnlNew.root)
		} else {
			b.cache(rnlNew.root)
		}
		f.resetLogs()
	}
	return pre
}

// build creates the subtree over keys[lo..hi] with a nondeterministically
// chosen root (=> every search-tree shape) using the real mkNode/mkNodeLoc.
func (b *vBuilder) build(lo, hi int, depth uint64) (*nodeLoc, int) {
	if lo > hi {
		return nil, -1
	}
	c := b.pre.c
	r := lo
	if hi > lo {
		r = vChoose("root", lo, hi)
	}
	b.pre.depth[r] = depth
	left, lr := b.build(lo, r-1, depth+1)
	right, rr := b.build(r+1, hi, depth+1)
	if b.pre.cfg.variant >= 1 {
		if lr >= 0 {
			vAssume(b.prios[lr] <= b.prios[r])
		}
		if rr >= 0 {
			vAssume(b.prios[rr] <= b.prios[r])
		}
	}
	var num, byt uint64 = 1, uint64(len(b.keys[r]) + len(b.vals[r]))
	if left != nil {
		num += left.node.numNodes
		byt += left.node.numBytes
	}
	if right != nil {
		num += right.node.numNodes
		byt += right.node.numBytes
	}
	it := &Item{Key: b.keys[r], Val: b.vals[r], Priority: b.prios[r]}
	il := &itemLoc{item: it}
	n := c.mkNode(il, left, right, num, byt)
	c.freeNodeLoc(left)
	c.freeNodeLoc(right)
	return c.mkNodeLoc(n), r
}

// cache chooses, per node, a cache state that some history reaches: dirty
// nodes form an ancestor-closed set, a persisted node has a persisted subtree.
func (b *vBuilder) cache(nloc *nodeLoc) {
	if nloc.isEmpty() {
		return
	}
	c := b.pre.c
	n := nloc.Node()
	if vChoose("node-persisted", 0, 1) == 0 {
		// dirty node; its item may already be persisted (path copy)
		if vChoose("item-persisted", 0, 1) == 1 {
			err := n.item.write(c)
			vAssert("pre-item-write", err == nil)
			b.itemState(n)
		}
		b.cache(&n.left)
		b.cache(&n.right)
		return
	}
	err := c.write(nloc)
	vAssert("pre-write", err == nil)
	b.reload(nloc)
}

// itemState: a persisted item is cached in full, key-only, or evicted.
func (b *vBuilder) itemState(n *node) {
	switch vChoose("item-cache", 0, 2) {
	case 1:
		n.Evict()
	case 2:
		n.Evict()
		it, err := n.item.read(b.pre.c, false)
		vAssert("pre-item-keyonly", vAnd(err == nil, it != nil))
	}
}

// reload: a persisted nodeLoc is not loaded (hides its subtree) or loaded
// from the file by the real read path, with its item in one of three states.
func (b *vBuilder) reload(nloc *nodeLoc) {
	if nloc.isEmpty() {
		return
	}
	nloc.setNode(nil)
	if vChoose("node-loaded", 0, 1) == 0 {
		return
	}
	n, err := nloc.read(b.pre.s)
	vAssert("pre-node-read", vAnd(err == nil, n != nil))
	switch vChoose("item-loaded", 0, 2) {
	case 1:
		it, err := n.item.read(b.pre.c, false)
		vAssert("pre-item-read-k", vAnd(err == nil, it != nil))
	case 2:
		it, err := n.item.read(b.pre.c, true)
		vAssert("pre-item-read-v", vAnd(err == nil, it != nil))
	}
	b.reload(&n.left)
	b.reload(&n.right)
}
