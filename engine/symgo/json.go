package main

// Native model of the subset of encoding/json that gkvlite's root record
// uses.  It is type-driven (go/types of the freshly loaded program: struct
// tags, Marshaler/Unmarshaler methods are looked up, never hard-wired) and
// calls the *interpreted* MarshalJSON / UnmarshalJSON methods of the code
// under test.  JSON bytes must be concrete on the path.

import (
	"bytes"
	"encoding/json"
	"fmt"
	"go/token"
	"go/types"
	"reflect"
	"sort"
	"strconv"
	"strings"
)

func (i *interpreter) concreteBytes(v value, what string) []byte {
	s := v.([]value)
	b := make([]byte, len(s))
	nsym := 0
	for k, e := range s {
		c, ok := e.(uint8)
		if !ok {
			// a few symbolic bytes are concretised (one path per feasible value)
			nsym++
			sv, isSym := e.(sym)
			if !isSym || nsym > 3 {
				panic(engineAbort{abInconclusive, "symbolic bytes reached the JSON model (" + what + ")"})
			}
			c = i.concretize(sv).(uint8)
		}
		b[k] = c
	}
	return b
}

func bytesValue(b []byte) value {
	s := make([]value, len(b))
	for k, c := range b {
		s[k] = c
	}
	return s
}

func (i *interpreter) findMethod(t types.Type, name string) (fnv value, ptrRecv bool) {
	if f := i.P.prog.LookupMethod(t, nil, name); f != nil {
		return f, false
	}
	if _, isPtr := t.Underlying().(*types.Pointer); !isPtr {
		if f := i.P.prog.LookupMethod(types.NewPointer(t), nil, name); f != nil {
			return f, true
		}
	}
	return nil, false
}

func hasMethod(t types.Type, name string) bool {
	ms := types.NewMethodSet(t)
	for k := 0; k < ms.Len(); k++ {
		if ms.At(k).Obj().Name() == name {
			return true
		}
	}
	return false
}

func extJSONMarshal(fr *frame, args []value) value {
	i := fr.i
	x := args[0].(iface)
	var buf bytes.Buffer
	if err := i.jsonEnc(fr, &buf, x.t, x.v); err != nil {
		if ie, ok := err.(targetErr); ok {
			return tuple{[]value(nil), ie.v}
		}
		return tuple{[]value(nil), i.errorValue("json: " + err.Error())}
	}
	return tuple{bytesValue(buf.Bytes()), iface{}}
}

type targetErr struct{ v value }

func (targetErr) Error() string { return "target error" }

func (i *interpreter) jsonEnc(fr *frame, buf *bytes.Buffer, t types.Type, v value) error {
	if t == nil {
		buf.WriteString("null")
		return nil
	}
	// Marshaler?
	if hasMethod(t, "MarshalJSON") {
		if p, ok := v.(*value); ok && p == nil {
			if _, isPtr := t.Underlying().(*types.Pointer); isPtr {
				buf.WriteString("null")
				return nil
			}
		}
		f := i.P.prog.LookupMethod(t, nil, "MarshalJSON")
		if f != nil {
			res := call(i, fr, token.NoPos, f, []value{v}).(tuple)
			if e := res[1].(iface); e.t != nil {
				return targetErr{e}
			}
			raw := i.concreteBytes(res[0], "MarshalJSON result")
			if !json.Valid(raw) {
				return fmt.Errorf("MarshalJSON returned invalid JSON")
			}
			var c bytes.Buffer
			json.Compact(&c, raw)
			buf.Write(c.Bytes())
			return nil
		}
	}
	switch u := t.Underlying().(type) {
	case *types.Pointer:
		p := v.(*value)
		if p == nil {
			buf.WriteString("null")
			return nil
		}
		return i.jsonEnc(fr, buf, u.Elem(), *p)
	case *types.Interface:
		x := v.(iface)
		return i.jsonEnc(fr, buf, x.t, x.v)
	case *types.Map:
		if kb, ok := u.Key().Underlying().(*types.Basic); !ok || kb.Kind() != types.String {
			panic(engineAbort{abInconclusive, "json model: map key type " + u.Key().String()})
		}
		m, _ := v.(*omap)
		if m == nil {
			buf.WriteString("null")
			return nil
		}
		keys := m.keys()
		sort.Slice(keys, func(a, b int) bool { return keys[a].(string) < keys[b].(string) })
		buf.WriteByte('{')
		for k, key := range keys {
			if k > 0 {
				buf.WriteByte(',')
			}
			kb, _ := json.Marshal(key.(string))
			buf.Write(kb)
			buf.WriteByte(':')
			e, _ := m.get(key)
			if err := i.jsonEnc(fr, buf, u.Elem(), e); err != nil {
				return err
			}
		}
		buf.WriteByte('}')
		return nil
	case *types.Struct:
		s := v.(structure)
		buf.WriteByte('{')
		first := true
		for k := 0; k < u.NumFields(); k++ {
			f := u.Field(k)
			if !f.Exported() {
				continue
			}
			name, opts := jsonFieldName(f.Name(), u.Tag(k))
			if name == "-" && opts == "" {
				continue
			}
			if f.Embedded() {
				panic(engineAbort{abInconclusive, "json model: embedded struct field"})
			}
			if strings.Contains(opts, "string") {
				panic(engineAbort{abInconclusive, "json model: tag option " + opts})
			}
			if strings.Contains(opts, "omitempty") && jsonEmpty(s[k]) {
				continue
			}
			if !first {
				buf.WriteByte(',')
			}
			first = false
			kb, _ := json.Marshal(name)
			buf.Write(kb)
			buf.WriteByte(':')
			if err := i.jsonEnc(fr, buf, f.Type(), s[k]); err != nil {
				return err
			}
		}
		buf.WriteByte('}')
		return nil
	case *types.Basic:
		if isSym(v) {
			panic(engineAbort{abInconclusive, "symbolic scalar reached the JSON model (Marshal)"})
		}
		switch {
		case u.Info()&types.IsInteger != 0:
			if u.Info()&types.IsUnsigned != 0 {
				_, bits, _ := concKind(v)
				buf.WriteString(strconv.FormatUint(bits, 10))
			} else {
				buf.WriteString(strconv.FormatInt(asInt64(v), 10))
			}
			return nil
		case u.Kind() == types.String:
			b, _ := json.Marshal(v.(string))
			buf.Write(b)
			return nil
		case u.Kind() == types.Bool:
			buf.WriteString(strconv.FormatBool(v.(bool)))
			return nil
		}
	}
	panic(engineAbort{abInconclusive, "json model: cannot marshal type " + t.String()})
}

func jsonFieldName(goName, tag string) (name, opts string) {
	jt := reflect.StructTag(tag).Get("json")
	if jt == "" {
		return goName, ""
	}
	parts := strings.SplitN(jt, ",", 2)
	name = parts[0]
	if len(parts) > 1 {
		opts = parts[1]
	}
	if name == "" {
		name = goName
	}
	return
}

func extJSONUnmarshal(fr *frame, args []value) value {
	i := fr.i
	data := i.concreteBytes(args[0], "Unmarshal input")
	x := args[1].(iface)
	if !json.Valid(data) {
		return i.errorValue("json: syntax error")
	}
	pt, ok := x.t.Underlying().(*types.Pointer)
	if !ok {
		return i.errorValue("json: Unmarshal(non-pointer)")
	}
	p := x.v.(*value)
	if p == nil {
		return i.errorValue("json: Unmarshal(nil)")
	}
	if err := i.jsonDec(fr, data, pt.Elem(), p); err != nil {
		if te, ok := err.(targetErr); ok {
			return te.v
		}
		return i.errorValue("json: " + err.Error())
	}
	return iface{}
}

// jsonDec decodes raw (one complete JSON value) into *dst of type t.
func (i *interpreter) jsonDec(fr *frame, raw []byte, t types.Type, dst *value) error {
	raw = bytes.TrimSpace(raw)
	isNull := string(raw) == "null"
	// Unmarshaler on *T ?
	if !isNull {
		if _, isPtr := t.Underlying().(*types.Pointer); !isPtr && hasMethod(types.NewPointer(t), "UnmarshalJSON") {
			f := i.P.prog.LookupMethod(types.NewPointer(t), nil, "UnmarshalJSON")
			res := call(i, fr, token.NoPos, f, []value{dst, bytesValue(raw)})
			if e := res.(iface); e.t != nil {
				return targetErr{e}
			}
			return nil
		}
	}
	switch u := t.Underlying().(type) {
	case *types.Pointer:
		if isNull {
			*dst = (*value)(nil)
			return nil
		}
		p, _ := (*dst).(*value)
		if p == nil {
			cell := zero(u.Elem())
			p = &cell
			*dst = p
		}
		return i.jsonDec(fr, raw, u.Elem(), p)
	case *types.Map:
		if isNull {
			return nil
		}
		if kb, ok := u.Key().Underlying().(*types.Basic); !ok || kb.Kind() != types.String {
			panic(engineAbort{abInconclusive, "json model: map key type"})
		}
		if raw[0] != '{' {
			return fmt.Errorf("cannot unmarshal %s into map", kindOfJSON(raw))
		}
		m, _ := (*dst).(*omap)
		if m == nil {
			m = newOmap()
			*dst = m
		}
		dec := json.NewDecoder(bytes.NewReader(raw))
		dec.Token() // {
		for dec.More() {
			kt, err := dec.Token()
			if err != nil {
				return err
			}
			var rm json.RawMessage
			if err := dec.Decode(&rm); err != nil {
				return err
			}
			cell := zero(u.Elem())
			if err := i.jsonDec(fr, rm, u.Elem(), &cell); err != nil {
				return err
			}
			m.set(kt.(string), cell)
		}
		return nil
	case *types.Struct:
		if isNull {
			return nil
		}
		if raw[0] != '{' {
			return fmt.Errorf("cannot unmarshal %s into struct", kindOfJSON(raw))
		}
		s := (*dst).(structure)
		dec := json.NewDecoder(bytes.NewReader(raw))
		dec.Token()
		for dec.More() {
			kt, err := dec.Token()
			if err != nil {
				return err
			}
			var rm json.RawMessage
			if err := dec.Decode(&rm); err != nil {
				return err
			}
			key := kt.(string)
			fi := -1
			for k := 0; k < u.NumFields(); k++ {
				if !u.Field(k).Exported() {
					continue
				}
				n, _ := jsonFieldName(u.Field(k).Name(), u.Tag(k))
				if n == key {
					fi = k
					break
				}
			}
			if fi < 0 {
				for k := 0; k < u.NumFields(); k++ {
					if !u.Field(k).Exported() {
						continue
					}
					n, _ := jsonFieldName(u.Field(k).Name(), u.Tag(k))
					if strings.EqualFold(n, key) {
						fi = k
						break
					}
				}
			}
			if fi < 0 {
				continue
			}
			if err := i.jsonDec(fr, rm, u.Field(fi).Type(), &s[fi]); err != nil {
				return err
			}
		}
		return nil
	case *types.Basic:
		if isNull {
			return nil
		}
		switch {
		case u.Info()&types.IsInteger != 0:
			txt := string(raw)
			if raw[0] == '"' || raw[0] == '{' || raw[0] == '[' || txt == "true" || txt == "false" {
				return fmt.Errorf("cannot unmarshal %s into Go value of type %s", kindOfJSON(raw), t)
			}
			bits := int(i.P.sizes.Sizeof(u)) * 8
			if u.Info()&types.IsUnsigned != 0 {
				n, err := strconv.ParseUint(txt, 10, bits)
				if err != nil {
					return fmt.Errorf("cannot unmarshal number %s into Go value of type %s", txt, t)
				}
				*dst = fromBits(u.Kind(), n)
			} else {
				n, err := strconv.ParseInt(txt, 10, bits)
				if err != nil {
					return fmt.Errorf("cannot unmarshal number %s into Go value of type %s", txt, t)
				}
				*dst = fromBits(u.Kind(), uint64(n))
			}
			return nil
		case u.Kind() == types.String:
			var sv string
			if err := json.Unmarshal(raw, &sv); err != nil {
				return err
			}
			*dst = sv
			return nil
		case u.Kind() == types.Bool:
			var bv bool
			if err := json.Unmarshal(raw, &bv); err != nil {
				return err
			}
			*dst = bv
			return nil
		}
	}
	panic(engineAbort{abInconclusive, "json model: cannot unmarshal into type " + t.String()})
}

func kindOfJSON(raw []byte) string {
	switch raw[0] {
	case '{':
		return "object"
	case '[':
		return "array"
	case '"':
		return "string"
	case 't', 'f':
		return "bool"
	}
	return "number"
}

// jsonEmpty: encoding/json's notion of an empty value for omitempty.
func jsonEmpty(v value) bool {
	switch x := v.(type) {
	case bool:
		return !x
	case string:
		return x == ""
	case *value:
		return x == nil
	case []value:
		return len(x) == 0
	case *omap:
		return x.len() == 0
	case iface:
		return x.t == nil
	case sym:
		panic(engineAbort{abInconclusive, "symbolic scalar reached the JSON model (omitempty)"})
	}
	if _, bits, ok := concKind(v); ok {
		return bits == 0
	}
	return false
}
