#!/bin/sh
# validates MANIFEST.json and every evidence file against the schemas
python3-vt - <<'PY'
import json,glob,jsonschema,sys
ok=True
try:
    jsonschema.validate(json.load(open('/verif/MANIFEST.json')), json.load(open('/root/.vp/MANIFEST.schema.json'))); print('MANIFEST ok')
except Exception as e:
    print('MANIFEST INVALID', e); ok=False
sch=json.load(open('/root/.vp/EVIDENCE.schema.json'))
for f in sorted(glob.glob('/verif/evidence/*.json')):
    try:
        jsonschema.validate(json.load(open(f)), sch); print(f,'ok')
    except Exception as e:
        print(f,'INVALID',str(e)[:300]); ok=False
sys.exit(0 if ok else 1)
PY
