#!/bin/bash
# usage: tools/seedconfirm.sh <dir with patch.diff + demo_test.go>
# confirms a seeded change in a scratch worktree (outside /repo and /verif):
# demo passes on the unchanged tree, existing suite passes with the change, demo fails with it.
export GOFLAGS=-mod=mod GOPROXY=off GOSUMDB=off GOTOOLCHAIN=local
d=$(cd "$1" && pwd)
wt=$(mktemp -d /tmp/seedwt.XXXXXX); rmdir "$wt"
git -C /repo worktree add --detach "$wt" HEAD >/dev/null 2>&1 || { echo "$d RESULT cannot create worktree"; exit 3; }
trap 'git -C /repo worktree remove --force "$wt" >/dev/null 2>&1; rm -rf "$wt"' EXIT
cp "$d/demo_test.go" "$wt/zz_seed_demo_test.go"
(cd "$wt" && timeout 300 go test -vet=off -count=1 -run '^TestSeedDemo$' -timeout 120s . >/dev/null 2>&1); base=$?
git -C "$wt" apply "$d/patch.diff" 2>/dev/null || { echo "$d RESULT patch does not apply to HEAD"; exit 3; }
rm "$wt/zz_seed_demo_test.go"
(cd "$wt" && timeout 1500 go test -vet=off -count=1 -timeout 20m ./... >/dev/null 2>&1); suite=$?
cp "$d/demo_test.go" "$wt/zz_seed_demo_test.go"
(cd "$wt" && timeout 300 go test -vet=off -count=1 -run '^TestSeedDemo$' -timeout 120s . >/dev/null 2>&1); mut=$?
ok=valid
if [ $base -ne 0 ] || [ $suite -ne 0 ] || [ $mut -eq 0 ]; then ok=INVALID; fi
echo "$d CONFIRM demo_unchanged_rc=$base suite_with_change_rc=$suite demo_with_change_rc=$mut $ok"
