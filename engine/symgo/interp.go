// Portions derived from golang.org/x/tools/go/ssa/interp (v0.29.0),
// Copyright 2013 The Go Authors, BSD-style license (see LICENSE.x-tools).
//
// symgo: a symbolic executor for Go SSA.  The heap shape is concrete (the
// boxed value model of ssa/interp), scalar cells may hold bit-vector terms.
// Branches on terms are decided by an SMT solver; paths are enumerated
// depth-first by re-execution with a decision prefix.

package main

import (
	"fmt"
	"go/token"
	"go/types"
	"os"
	"runtime"
	"runtime/debug"
	"slices"
	"sync"

	"golang.org/x/tools/go/ssa"
)

type continuation int

const (
	kNext continuation = iota
	kReturn
	kJump
)

// program is shared read-only by all workers.
type program struct {
	prog               *ssa.Program
	pkg                *ssa.Package // the package under test (gkvlite)
	interpPkgs         map[*ssa.Package]bool
	runtimeErrorString types.Type
	sizes              types.Sizes
	fnInfos            sync.Map // *ssa.Function -> *fnInfo
	params             map[string]int
	trace              bool
	stepBudget         int64
	concretizeCap      int
	solverKind         string
	solverTimeoutMs    int
}

type fnInfo struct {
	idx    map[ssa.Value]int32
	nvals  int
	consts []value
}

func (P *program) info(fn *ssa.Function) *fnInfo {
	if v, ok := P.fnInfos.Load(fn); ok {
		return v.(*fnInfo)
	}
	fi := &fnInfo{idx: make(map[ssa.Value]int32)}
	add := func(v ssa.Value) {
		if _, ok := fi.idx[v]; !ok {
			fi.idx[v] = int32(fi.nvals)
			fi.nvals++
		}
	}
	for _, p := range fn.Params {
		add(p)
	}
	for _, fv := range fn.FreeVars {
		add(fv)
	}
	for _, b := range fn.Blocks {
		for _, ins := range b.Instrs {
			if v, ok := ins.(ssa.Value); ok {
				add(v)
			}
			for _, op := range ins.Operands(nil) {
				if c, ok := (*op).(*ssa.Const); ok {
					if _, ok := fi.idx[c]; !ok {
						fi.consts = append(fi.consts, constValue(c))
						fi.idx[c] = -int32(len(fi.consts))
					}
				}
			}
		}
	}
	v, _ := P.fnInfos.LoadOrStore(fn, fi)
	return v.(*fnInfo)
}

// interpreter: one per worker.
type interpreter struct {
	P       *program
	globals map[*ssa.Global]*value
	tt      *termTable
	sol     *solver
	path    *pathState
	ex      *explorer
	mutexes map[*value]*mutexState
	sched   *scheduler
	worker  int
	inInit  bool
	replayIn *replayInput
	// diagnostics for the last target panic
	panicStack []byte
	panicWhere string
	curPos     token.Pos
}

// nopFn stands for an unmodelled callee during package initialisation.
type nopFn struct{ res *types.Tuple }

type deferred struct {
	fn    value
	args  []value
	instr *ssa.Defer
	tail  *deferred
}

type frame struct {
	i                *interpreter
	caller           *frame
	fn               *ssa.Function
	fi               *fnInfo
	block, prevBlock *ssa.BasicBlock
	env              []value
	locals           []value
	defers           *deferred
	result           value
	panicking        bool
	panic            interface{}
	phitemps         []value
	g                *gor
}

func (fr *frame) get(key ssa.Value) value {
	switch key := key.(type) {
	case nil:
		return nil
	case *ssa.Function, *ssa.Builtin:
		return key
	case *ssa.Global:
		if r, ok := fr.i.globals[key]; ok {
			return r
		}
		return fr.i.lazyGlobal(key)
	}
	if ix, ok := fr.fi.idx[key]; ok {
		if ix < 0 {
			return fr.fi.consts[-ix-1]
		}
		return fr.env[ix]
	}
	if c, ok := key.(*ssa.Const); ok {
		return constValue(c)
	}
	panic(fmt.Sprintf("get: no value for %T: %v", key, key.Name()))
}

func (fr *frame) set(key ssa.Value, v value) {
	fr.env[fr.fi.idx[key]] = v
}

// lazyGlobal allocates zeroed storage for a global of a package whose init
// we do not run (only reached for uninterpreted packages' variables).
func (i *interpreter) lazyGlobal(g *ssa.Global) *value {
	cell := zero(deref(g.Type()))
	i.globals[g] = &cell
	return &cell
}

func deref(t types.Type) types.Type {
	if p, ok := t.Underlying().(*types.Pointer); ok {
		return p.Elem()
	}
	panic(fmt.Sprintf("deref: %v is not a pointer", t))
}

// engineAbort ends the current path without running target defers.
type abortKind int

const (
	abInfeasible abortKind = iota
	abInconclusive
	abUnwind
	abDeadlock
	abKilled // goroutine torn down at path end
	abStop   // harness asked to end the path (after recorded violation)
)

type engineAbort struct {
	kind abortKind
	msg  string
}

func (fr *frame) runDefer(d *deferred) {
	var ok bool
	defer func() {
		if !ok {
			r := recover()
			if ab, isab := r.(engineAbort); isab {
				panic(ab)
			}
			fr.panicking = true
			fr.panic = r
		}
	}()
	call(fr.i, fr, d.instr.Pos(), d.fn, d.args)
	ok = true
}

func (fr *frame) runDefers() {
	for d := fr.defers; d != nil; d = d.tail {
		fr.runDefer(d)
	}
	fr.defers = nil
	if fr.panicking {
		panic(fr.panic)
	}
}

func lookupMethod(i *interpreter, typ types.Type, meth *types.Func) *ssa.Function {
	return i.P.prog.LookupMethod(typ, meth.Pkg(), meth.Name())
}

func visitInstr(fr *frame, instr ssa.Instruction) continuation {
	i := fr.i
	p := i.path
	p.steps++
	if p.steps > i.P.stepBudget {
		panic(engineAbort{abUnwind, fmt.Sprintf("step budget %d exceeded in %s", i.P.stepBudget, fr.fn)})
	}
	switch instr := instr.(type) {
	case *ssa.DebugRef:
		// no-op

	case *ssa.UnOp:
		fr.set(instr, i.unop(fr, instr, fr.get(instr.X)))

	case *ssa.BinOp:
		fr.set(instr, i.binop(instr.Op, instr.X.Type(), fr.get(instr.X), fr.get(instr.Y)))

	case *ssa.Call:
		fn, args := prepareCall(fr, &instr.Call)
		fr.set(instr, call(fr.i, fr, instr.Pos(), fn, args))

	case *ssa.ChangeInterface:
		fr.set(instr, fr.get(instr.X))

	case *ssa.ChangeType:
		fr.set(instr, fr.get(instr.X))

	case *ssa.Convert:
		fr.set(instr, i.conv(instr.Type(), instr.X.Type(), fr.get(instr.X)))

	case *ssa.SliceToArrayPointer:
		fr.set(instr, sliceToArrayPointer(instr.Type(), instr.X.Type(), fr.get(instr.X)))

	case *ssa.MakeInterface:
		fr.set(instr, iface{t: instr.X.Type(), v: fr.get(instr.X)})

	case *ssa.Extract:
		fr.set(instr, fr.get(instr.Tuple).(tuple)[instr.Index])

	case *ssa.Slice:
		fr.set(instr, i.slice(fr.get(instr.X), fr.get(instr.Low), fr.get(instr.High), fr.get(instr.Max)))

	case *ssa.Return:
		switch len(instr.Results) {
		case 0:
		case 1:
			fr.result = fr.get(instr.Results[0])
		default:
			var res []value
			for _, r := range instr.Results {
				res = append(res, fr.get(r))
			}
			fr.result = tuple(res)
		}
		fr.block = nil
		return kReturn

	case *ssa.RunDefers:
		fr.runDefers()

	case *ssa.Panic:
		panic(targetPanic{fr.get(instr.X)})

	case *ssa.Send:
		i.chanSend(fr, fr.get(instr.Chan), fr.get(instr.X))

	case *ssa.Store:
		store(deref(instr.Addr.Type()), fr.get(instr.Addr).(*value), fr.get(instr.Val))

	case *ssa.If:
		succ := 1
		if i.cond(fr.get(instr.Cond)) {
			succ = 0
		}
		fr.prevBlock, fr.block = fr.block, fr.block.Succs[succ]
		return kJump

	case *ssa.Jump:
		fr.prevBlock, fr.block = fr.block, fr.block.Succs[0]
		return kJump

	case *ssa.Defer:
		fn, args := prepareCall(fr, &instr.Call)
		defers := &fr.defers
		if into := fr.get(instr.DeferStack); into != nil {
			defers = into.(**deferred)
		}
		*defers = &deferred{fn: fn, args: args, instr: instr, tail: *defers}

	case *ssa.Go:
		fn, args := prepareCall(fr, &instr.Call)
		i.spawn(fr, instr.Pos(), fn, args)

	case *ssa.MakeChan:
		fr.set(instr, i.makeChan(i.asInt(fr.get(instr.Size))))

	case *ssa.Alloc:
		var addr *value
		if instr.Heap {
			addr = new(value)
			fr.set(instr, addr)
		} else {
			addr = fr.get(instr).(*value)
		}
		*addr = zero(deref(instr.Type()))

	case *ssa.MakeSlice:
		n := i.asInt(fr.get(instr.Cap))
		if n < 0 || n > 1<<24 {
			panic(fmt.Sprintf("runtime error: makeslice: cap out of range (%d)", n))
		}
		slice := make([]value, n)
		tElt := instr.Type().Underlying().(*types.Slice).Elem()
		for k := range slice {
			slice[k] = zero(tElt)
		}
		l := i.asInt(fr.get(instr.Len))
		if l < 0 || l > n {
			panic("runtime error: makeslice: len out of range")
		}
		fr.set(instr, slice[:l])

	case *ssa.MakeMap:
		fr.set(instr, makeMap(instr.Type().Underlying().(*types.Map).Key(), 0))

	case *ssa.Range:
		it := rangeIter(fr.get(instr.X), instr.X.Type())
		if mi, ok := it.(*mapIter); ok && len(mi.keys) > 1 && i.P.params["maporder"] == 2 {
			// Go leaves map iteration order unspecified: explore sorted and
			// reversed order (one decision per path)
			if !p.mapOrderDecided {
				p.mapOrderDecided = true
				p.mapRev = i.choose(0, 1) == 1
			}
			if p.mapRev {
				for a, b := 0, len(mi.keys)-1; a < b; a, b = a+1, b-1 {
					mi.keys[a], mi.keys[b] = mi.keys[b], mi.keys[a]
				}
			}
		}
		fr.set(instr, it)

	case *ssa.Next:
		fr.set(instr, fr.get(instr.Iter).(iter).next())

	case *ssa.FieldAddr:
		fr.set(instr, &(*fr.get(instr.X).(*value)).(structure)[instr.Field])

	case *ssa.Field:
		fr.set(instr, fr.get(instr.X).(structure)[instr.Field])

	case *ssa.IndexAddr:
		x := fr.get(instr.X)
		idx := i.asInt(fr.get(instr.Index))
		switch x := x.(type) {
		case []value:
			fr.set(instr, &x[idx])
		case *value: // *array
			fr.set(instr, &(*x).(array)[idx])
		default:
			panic(fmt.Sprintf("unexpected x type in IndexAddr: %T", x))
		}

	case *ssa.Index:
		x := fr.get(instr.X)
		idx := i.asInt(fr.get(instr.Index))
		switch x := x.(type) {
		case array:
			fr.set(instr, x[idx])
		case string:
			fr.set(instr, x[idx])
		default:
			panic(fmt.Sprintf("unexpected x type in Index: %T", x))
		}

	case *ssa.Lookup:
		fr.set(instr, lookup(instr, fr.get(instr.X), i.concreteKey(fr.get(instr.Index))))

	case *ssa.MapUpdate:
		m := fr.get(instr.Map)
		key := i.concreteKey(fr.get(instr.Key))
		v := fr.get(instr.Value)
		switch m := m.(type) {
		case *omap:
			if m == nil {
				panic("assignment to entry in nil map")
			}
			m.set(key, v)
		case *hashmap:
			m.insert(key.(hashable), v)
		default:
			panic(fmt.Sprintf("illegal map type: %T", m))
		}

	case *ssa.TypeAssert:
		fr.set(instr, typeAssert(fr.i, instr, fr.get(instr.X).(iface)))

	case *ssa.MakeClosure:
		var bindings []value
		for _, binding := range instr.Bindings {
			bindings = append(bindings, fr.get(binding))
		}
		fr.set(instr, &closure{instr.Fn.(*ssa.Function), bindings})

	case *ssa.Phi:
		panic("unreachable: phi")

	case *ssa.Select:
		panic(engineAbort{abInconclusive, "select statement not supported"})

	default:
		panic(fmt.Sprintf("unexpected instruction: %T", instr))
	}
	return kNext
}

func prepareCall(fr *frame, call *ssa.CallCommon) (fn value, args []value) {
	v := fr.get(call.Value)
	if call.Method == nil {
		fn = v
	} else {
		recv := v.(iface)
		if recv.t == nil {
			if fr.i.inInit {
				return nopFn{call.Signature().Results()}, nil
			}
			panic("runtime error: invalid memory address or nil pointer dereference (method invoked on nil interface)")
		}
		if f := lookupMethod(fr.i, recv.t, call.Method); f == nil {
			panic(fmt.Sprintf("method set for dynamic type %v does not contain %s", recv.t, call.Method))
		} else {
			fn = f
		}
		args = append(args, recv.v)
	}
	for _, arg := range call.Args {
		args = append(args, fr.get(arg))
	}
	return
}

func call(i *interpreter, caller *frame, callpos token.Pos, fn value, args []value) value {
	switch fn := fn.(type) {
	case *ssa.Function:
		if fn == nil {
			panic("runtime error: call of nil function")
		}
		return callSSA(i, caller, callpos, fn, args, nil)
	case *closure:
		return callSSA(i, caller, callpos, fn.Fn, args, fn.Env)
	case *ssa.Builtin:
		return callBuiltin(caller, callpos, fn, args)
	case nopFn:
		switch fn.res.Len() {
		case 0:
			return nil
		case 1:
			return zero(fn.res.At(0).Type())
		}
		return zero(fn.res)
	}
	panic(fmt.Sprintf("cannot call %T", fn))
}

func callSSA(i *interpreter, caller *frame, callpos token.Pos, fn *ssa.Function, args []value, env []value) value {
	if i.P.trace {
		fmt.Fprintf(os.Stderr, "[w%d] enter %s\n", i.worker, fn)
	}
	fr := &frame{i: i, caller: caller, fn: fn}
	if caller != nil {
		fr.g = caller.g
	}
	if fn.Parent() == nil {
		name := fn.String()
		if ext := externals[name]; ext != nil {
			return ext(fr, args)
		}
		if fn.Pkg != nil && !i.P.interpPkgs[fn.Pkg] {
			if fn.Synthetic == "package initializer" {
				return nil
			}
			if i.inInit {
				return zeroResults(fn)
			}
			panic(engineAbort{abInconclusive, "call to unmodelled function " + name})
		}
		if fn.Blocks == nil {
			if fn.Pkg == nil && fn.Synthetic != "" {
				// wrappers/thunks/bound methods are built lazily by go/ssa
			}
			panic(engineAbort{abInconclusive, "no code for function: " + name})
		}
	} else if fn.Blocks == nil {
		panic(engineAbort{abInconclusive, "no code for function: " + fn.String()})
	}
	if fn.TypeParams().Len() > 0 && len(fn.TypeArgs()) == 0 {
		panic(engineAbort{abInconclusive, "uninstantiated generic function " + fn.String()})
	}
	fi := i.P.info(fn)
	fr.fi = fi
	fr.env = make([]value, fi.nvals)
	fr.block = fn.Blocks[0]
	fr.locals = make([]value, len(fn.Locals))
	for k, l := range fn.Locals {
		fr.locals[k] = zero(deref(l.Type()))
		fr.env[fi.idx[l]] = &fr.locals[k]
	}
	for k, p := range fn.Params {
		fr.env[fi.idx[p]] = args[k]
	}
	for k, fv := range fn.FreeVars {
		fr.env[fi.idx[fv]] = env[k]
	}
	for fr.block != nil {
		runFrame(fr)
	}
	return fr.result
}

func runFrame(fr *frame) {
	defer func() {
		if fr.block == nil {
			return // normal return
		}
		r := recover()
		if ab, ok := r.(engineAbort); ok {
			panic(ab)
		}
		if fr.i.panicStack == nil {
			fr.i.panicStack = debug.Stack()
			fr.i.panicWhere = fmt.Sprintf("%s (%s)", fr.fn, fr.fn.Prog.Fset.Position(fr.i.curPos))
		}
		fr.panicking = true
		fr.panic = r
		fr.runDefers()
		fr.block = fr.fn.Recover
		if fr.block == nil {
			// recovered in a function without named results: zero results
			fr.result = zeroResults(fr.fn)
		}
	}()

	for {
		nonPhis := executePhis(fr)
		for _, instr := range nonPhis {
			if p := instr.Pos(); p != token.NoPos {
				fr.i.curPos = p
			}
			if visitInstr(fr, instr) == kReturn {
				return
			}
		}
	}
}

func zeroResults(fn *ssa.Function) value {
	res := fn.Signature.Results()
	switch res.Len() {
	case 0:
		return nil
	case 1:
		return zero(res.At(0).Type())
	}
	return zero(res)
}

func executePhis(fr *frame) []ssa.Instruction {
	firstNonPhi := -1
	for i, instr := range fr.block.Instrs {
		if _, ok := instr.(*ssa.Phi); !ok {
			firstNonPhi = i
			break
		}
	}
	nonPhis := fr.block.Instrs[firstNonPhi:]
	if firstNonPhi > 0 {
		phis := fr.block.Instrs[:firstNonPhi]
		predIndex := slices.Index(fr.block.Preds, fr.prevBlock)
		fr.phitemps = fr.phitemps[:0]
		for _, phi := range phis {
			phi := phi.(*ssa.Phi)
			fr.phitemps = append(fr.phitemps, fr.get(phi.Edges[predIndex]))
		}
		for i, phi := range phis {
			fr.set(phi.(*ssa.Phi), fr.phitemps[i])
		}
	}
	return nonPhis
}

func doRecover(caller *frame) value {
	if caller != nil && !caller.panicking &&
		caller.caller != nil && caller.caller.panicking {
		caller.caller.panicking = false
		p := caller.caller.panic
		caller.caller.panic = nil
		caller.i.panicStack = nil
		switch p := p.(type) {
		case targetPanic:
			return p.v
		case runtime.Error:
			return iface{caller.i.P.runtimeErrorString, p.Error()}
		case string:
			return iface{caller.i.P.runtimeErrorString, p}
		default:
			panic(fmt.Sprintf("unexpected panic type %T in target call to recover()", p))
		}
	}
	return iface{}
}

// initGlobals allocates zeroed storage for the globals of the interpreted
// packages and runs their initialisers (imports' init calls are skipped for
// packages that are not interpreted; see callInit).
func (i *interpreter) initPackage(pkg *ssa.Package) {
	for _, m := range pkg.Members {
		if g, ok := m.(*ssa.Global); ok {
			cell := zero(deref(g.Type()))
			if p, ok := i.globals[g]; ok {
				*p = cell
			} else {
				i.globals[g] = &cell
			}
		}
	}
}
