package gkvlite

// C05: one mutator, one flusher, one reader as interpreted goroutines under
// the engine's controlled scheduler.  Keys are concrete ("a".."c"), values
// symbolic.  Every StoreFile call, mutex operation and atomic is a scheduling
// point; schedules are enumerated up to the pre-emption bound.

type vVersion struct {
	a, b   *vModel
	ms, me int // clock at the start / end of the mutator call that published it
}

type vConc struct {
	clock int
	vers  []vVersion // vers[0] = initial state
}

func (x *vConc) tick() int {
	x.clock++
	return x.clock
}

// acceptable: version k may have been current at some instant in [ts, te].
func (x *vConc) acceptable(k, ts, te int) bool {
	if k > 0 && x.vers[k].ms > te {
		return false // published after the read ended
	}
	if k+1 < len(x.vers) && x.vers[k+1].me < ts {
		return false // superseded before the read started
	}
	return true
}

func vMatchSeq(seen []vSeen, m *vModel) bool {
	if len(seen) != len(m.ents) {
		return false
	}
	ok := true
	for i := range seen {
		ok = vAnd(ok, vAnd(vBytesEq(seen[i].key, m.ents[i].key), vAnd(vBytesEq(seen[i].val, m.ents[i].val), seen[i].prio == m.ents[i].prio)))
	}
	return ok
}

func vH_C05_conc() {
	f := &vFile{}
	s, err := NewStore(f)
	vAssert("newstore", vAnd(err == nil, s != nil))
	ca := s.SetCollection("a", nil)
	cb := s.SetCollection("b", nil)
	ma, mb := &vModel{cmp: vCmpDefault}, &vModel{cmp: vCmpDefault}
	keys := [][]byte{[]byte("a"), []byte("b"), []byte("c")}
	// initial durable contents
	for i := 0; i < vParam("initial"); i++ {
		v := vBytes(vName("iv", i), 1)
		vAssert("init-set", ca.SetItem(&Item{Key: keys[i], Val: v, Priority: int32(10 + i)}) == nil)
		ma.set(keys[i], v, int32(10+i))
	}
	v0 := vBytes("ivb", 1)
	vAssert("init-set-b", cb.SetItem(&Item{Key: keys[0], Val: v0, Priority: 5}) == nil)
	mb.set(keys[0], v0, 5)
	vAssert("init-flush", s.Flush() == nil)
	nkeys := vParam("nkeys")
	if vChoose("evict-first", 0, vParam("evict")) == 1 {
		ca.EvictSomeItems()
	}
	if vParam("dirty") == 1 && vChoose("dirty-first", 0, 1) == 1 {
		// an unflushed mutation before the concurrent phase: the versions the
		// flusher pins are dirty
		dv := vBytes("dv", 1)
		vAssert("dirty-set-a", ca.SetItem(&Item{Key: keys[2], Val: dv, Priority: 7}) == nil)
		ma.set(keys[2], dv, 7)
		dv2 := vBytes("dv2", 1)
		vAssert("dirty-set-b", cb.SetItem(&Item{Key: keys[1], Val: dv2, Priority: 8}) == nil)
		mb.set(keys[1], dv2, 8)
		vCover("dirty-first")
	}
	x := &vConc{}
	x.vers = append(x.vers, vVersion{a: ma.clone(), b: mb.clone()})
	f.yield = true

	var mutDone, flushDone, readDone bool
	nmut := vParam("mutations")
	// ---- mutator
	go func() {
		for k := 0; k < nmut; k++ {
			onB := vChoose("mut-coll", 0, 1) == 1
			c, m := ca, ma
			if onB {
				c, m = cb, mb
			}
			key := keys[vChoose("mut-key", 0, nkeys-1)]
			ms := x.tick()
			if vChoose("mut-op", 0, 1) == 0 {
				val := vBytes("mv", 1)
				prio := int32(20 + k)
				vAssert("mut-set", c.SetItem(&Item{Key: key, Val: val, Priority: prio}) == nil)
				m.set(key, val, prio)
			} else {
				was, err := c.Delete(key)
				vAssert("mut-delete", vAnd(err == nil, was == m.del(key)))
			}
			me := x.tick()
			x.vers = append(x.vers, vVersion{a: ma.clone(), b: mb.clone(), ms: ms, me: me})
		}
		mutDone = true
	}()
	// ---- flusher
	var fs, fe int
	var ferr error
	if vParam("flusher") == 1 {
		go func() {
			fs = x.tick()
			ferr = s.Flush()
			fe = x.tick()
			flushDone = true
		}()
	} else {
		flushDone = true
	}
	// ---- reader
	rop := vChoose("read-op", 0, 5)
	// the reader records what it saw; the comparison with the version log is
	// made by main after all goroutines have finished (the mutator appends a
	// version record only after its call returned)
	var verdict func()
	go func() {
		ts := x.tick()
		switch rop {
		case 0:
			key := keys[vChoose("read-key", 0, nkeys-1)]
			got, err := ca.Get(key)
			te := x.tick()
			vAssert("get-noerr", err == nil)
			verdict = func() {
				ok := false
				for k := range x.vers {
					if !x.acceptable(k, ts, te) {
						continue
					}
					j := x.vers[k].a.find(key)
					if j < 0 {
						ok = vOr(ok, got == nil)
					} else {
						ok = vOr(ok, vAnd(got != nil, vBytesEq(got, x.vers[k].a.ents[j].val)))
					}
				}
				vAssert("get-sees-one-current-version", ok)
			}
		case 1:
			it, err := ca.MinItem(true)
			te := x.tick()
			vAssert("min-noerr", err == nil)
			verdict = func() {
				ok := false
				for k := range x.vers {
					if !x.acceptable(k, ts, te) {
						continue
					}
					m := x.vers[k].a
					if len(m.ents) == 0 {
						ok = vOr(ok, it == nil)
					} else if it != nil {
						ok = vOr(ok, vAnd(vBytesEq(it.Key, m.ents[0].key), vBytesEq(it.Val, m.ents[0].val)))
					}
				}
				vAssert("min-sees-one-current-version", ok)
			}
		case 2:
			n, b, err := ca.GetTotals()
			te := x.tick()
			vAssert("totals-noerr", err == nil)
			verdict = func() {
				ok := false
				for k := range x.vers {
					if !x.acceptable(k, ts, te) {
						continue
					}
					mn, mb := x.vers[k].a.totals()
					ok = vOr(ok, vAnd(n == mn, b == mb))
				}
				vAssert("totals-see-one-current-version", ok)
			}
		case 3:
			var seen []vSeen
			err := ca.VisitItemsAscendEx(nil, true, func(i *Item, d uint64) bool {
				seen = append(seen, vSeen{i.Key, i.Val, i.Priority, d})
				vYield("visitor")
				return true
			})
			te := x.tick()
			vAssert("visit-noerr", err == nil)
			verdict = func() {
				ok := false
				for k := range x.vers {
					if x.acceptable(k, ts, te) {
						ok = vOr(ok, vMatchSeq(seen, x.vers[k].a))
					}
				}
				vAssert("visit-sees-one-version-never-a-mixture", ok)
			}
		case 5:
			var seen []vSeen
			err := ca.VisitItemsDescendEx([]byte{0xff, 0xff}, true, func(i *Item, d uint64) bool {
				seen = append([]vSeen{{i.Key, i.Val, i.Priority, d}}, seen...)
				vYield("visitor")
				return true
			})
			te := x.tick()
			vAssert("descend-noerr", err == nil)
			verdict = func() {
				ok := false
				for k := range x.vers {
					if x.acceptable(k, ts, te) {
						ok = vOr(ok, vMatchSeq(seen, x.vers[k].a))
					}
				}
				vAssert("descending-visit-sees-one-version-never-a-mixture", ok)
			}
		case 4:
			sn := s.Snapshot()
			te := x.tick()
			sc := sn.GetCollection("a")
			vAssert("snapshot-coll", sc != nil)
			var seen []vSeen
			err := sc.VisitItemsAscendEx(nil, true, func(i *Item, d uint64) bool {
				seen = append(seen, vSeen{i.Key, i.Val, i.Priority, d})
				return true
			})
			vAssert("snapshot-visit-noerr", err == nil)
			verdict = func() {
				ok := false
				for k := range x.vers {
					if x.acceptable(k, ts, te) {
						ok = vOr(ok, vMatchSeq(seen, x.vers[k].a))
					}
				}
				vAssert("snapshot-is-one-current-version", ok)
			}
			sn.Close()
		}
		if vParam("reader2") == 1 {
			// a second read by the same reader: a lookup with the value after
			// whatever the first operation did to the caches
			key2 := keys[vChoose("read2-key", 0, nkeys-1)]
			ts2 := x.tick()
			got2, err2 := ca.Get(key2)
			te2 := x.tick()
			vAssert("get2-noerr", err2 == nil)
			first := verdict
			verdict = func() {
				if first != nil {
					first()
				}
				ok := false
				for k := range x.vers {
					if !x.acceptable(k, ts2, te2) {
						continue
					}
					j := x.vers[k].a.find(key2)
					if j < 0 {
						ok = vOr(ok, got2 == nil)
					} else {
						ok = vOr(ok, vAnd(got2 != nil, vBytesEq(got2, x.vers[k].a.ents[j].val)))
					}
				}
				vAssert("second-get-sees-one-current-version", ok)
			}
		}
		readDone = true
	}()
	vBlockUntil(&mutDone)
	vBlockUntil(&flushDone)
	vBlockUntil(&readDone)
	f.yield = false
	if verdict != nil {
		verdict()
	}
	if vPreemptions() > 0 {
		vCover("preempted")
	}
	// no lost update: the mutator's final state is the sequential result
	vCheckColl("final-a", ca, ma)
	vCheckColl("final-b", cb, mb)
	// the concurrent Flush persisted, per collection, a version current during
	// the flush, a not later than b
	if vParam("flusher") == 1 {
		vAssert("flush-noerr", ferr == nil)
		s2, err := NewStore(f)
		vAssert("reopen-ok", vAnd(err == nil, s2 != nil))
		if s2 != nil && s2.GetCollection("a") != nil && s2.GetCollection("b") != nil {
			sa, e1 := vAscendAll(s2.GetCollection("a"), true)
			sb, e2 := vAscendAll(s2.GetCollection("b"), true)
			vAssert("reopen-read", vAnd(e1 == nil, e2 == nil))
			ok := false
			for ga := range x.vers {
				if !x.acceptable(ga, fs, fe) {
					continue
				}
				for gb := ga; gb < len(x.vers); gb++ {
					if !x.acceptable(gb, fs, fe) {
						continue
					}
					ok = vOr(ok, vAnd(vMatchSeq(sa, x.vers[ga].a), vMatchSeq(sb, x.vers[gb].b)))
				}
			}
			vAssert("flush-persisted-current-versions-in-name-order", ok)
		}
		vCover("flushed")
	}
	vCover("done")
}
