package main

// Self-tests of the term layer: (1) the simplifying constructors agree with a
// direct Go evaluation of the same recipe, (2) the native evaluator agrees
// with the SMT solver's semantics on the printed term.

import (
	"fmt"
	"go/token"
	"go/types"
	"math/rand"
	"testing"
)

type recipe struct {
	op      opKind
	w       uint8
	a, b, c *recipe
	k       uint64
	name    string
	hi, lo  uint8
}

func genRecipe(r *rand.Rand, w uint8, depth int) *recipe {
	if depth == 0 || r.Intn(5) == 0 {
		if r.Intn(3) == 0 {
			return &recipe{op: opConst, w: w, k: r.Uint64() & mask(w)}
		}
		return &recipe{op: opVar, w: w, name: fmt.Sprintf("x%d_%d", w, r.Intn(3))}
	}
	switch r.Intn(9) {
	case 0:
		ops := []opKind{opAdd, opSub, opMul, opBvAnd, opBvOr, opBvXor, opShl, opLShr, opAShr, opUDiv, opURem, opSDiv, opSRem}
		return &recipe{op: ops[r.Intn(len(ops))], w: w, a: genRecipe(r, w, depth-1), b: genRecipe(r, w, depth-1)}
	case 1:
		// shift by constant (the byte composition patterns)
		return &recipe{op: []opKind{opShl, opLShr}[r.Intn(2)], w: w, a: genRecipe(r, w, depth-1), b: &recipe{op: opConst, w: w, k: uint64(r.Intn(int(w) + 2))}}
	case 2:
		if w > 8 {
			sw := []uint8{8, 16, 32}[r.Intn(3)]
			if sw < w {
				return &recipe{op: []opKind{opZExt, opSExt}[r.Intn(2)], w: w, a: genRecipe(r, sw, depth-1)}
			}
		}
		return &recipe{op: opBvNot, w: w, a: genRecipe(r, w, depth-1)}
	case 3:
		// extract from a wider term
		ww := []uint8{16, 32, 64}[r.Intn(3)]
		if ww > w {
			lo := uint8(r.Intn(int(ww-w) + 1))
			return &recipe{op: opExtract, w: w, a: genRecipe(r, ww, depth-1), hi: lo + w - 1, lo: lo}
		}
		return &recipe{op: opBvNeg, w: w, a: genRecipe(r, w, depth-1)}
	case 4:
		if w >= 16 {
			hw := w / 2
			return &recipe{op: opConcat, w: w, a: genRecipe(r, w-hw, depth-1), b: genRecipe(r, hw, depth-1)}
		}
		return &recipe{op: opBvOr, w: w, a: genRecipe(r, w, depth-1), b: genRecipe(r, w, depth-1)}
	case 5:
		return &recipe{op: opIte, w: w, c: genBool(r, depth-1), a: genRecipe(r, w, depth-1), b: genRecipe(r, w, depth-1)}
	case 6:
		// OR of shifted zero-extended bytes
		x := &recipe{op: opZExt, w: w, a: genRecipe(r, 8, 0)}
		if w == 8 {
			return x
		}
		sh := uint64(8 * r.Intn(int(w/8)))
		return &recipe{op: opBvOr, w: w, a: &recipe{op: opShl, w: w, a: x, b: &recipe{op: opConst, w: w, k: sh}}, b: genRecipe(r, w, depth-1)}
	default:
		return &recipe{op: opBvXor, w: w, a: genRecipe(r, w, depth-1), b: genRecipe(r, w, depth-1)}
	}
}

func genBool(r *rand.Rand, depth int) *recipe {
	w := []uint8{8, 16, 32, 64}[r.Intn(4)]
	if depth <= 0 {
		return &recipe{op: opEq, a: genRecipe(r, w, 0), b: genRecipe(r, w, 0)}
	}
	switch r.Intn(5) {
	case 0:
		return &recipe{op: opNot, a: genBool(r, depth-1)}
	case 1:
		return &recipe{op: []opKind{opAnd, opOr}[r.Intn(2)], a: genBool(r, depth-1), b: genBool(r, depth-1)}
	case 2:
		return &recipe{op: opEq, a: genRecipe(r, w, depth-1), b: genRecipe(r, w, depth-1)}
	default:
		return &recipe{op: []opKind{opUlt, opUle, opSlt, opSle}[r.Intn(4)], a: genRecipe(r, w, depth-1), b: genRecipe(r, w, depth-1)}
	}
}

func (rc *recipe) build(tt *termTable) *Term {
	switch rc.op {
	case opConst:
		return tt.Const(rc.w, rc.k)
	case opVar:
		return tt.Var(rc.w, rc.name)
	case opNot:
		return tt.Not(rc.a.build(tt))
	case opAnd:
		return tt.And(rc.a.build(tt), rc.b.build(tt))
	case opOr:
		return tt.Or(rc.a.build(tt), rc.b.build(tt))
	case opEq:
		return tt.Eq(rc.a.build(tt), rc.b.build(tt))
	case opIte:
		return tt.Ite(rc.c.build(tt), rc.a.build(tt), rc.b.build(tt))
	case opBvNot, opBvNeg:
		return tt.Un(rc.op, rc.a.build(tt))
	case opExtract:
		return tt.Extract(rc.a.build(tt), rc.hi, rc.lo)
	case opConcat:
		return tt.Concat(rc.a.build(tt), rc.b.build(tt))
	case opZExt:
		return tt.ZExt(rc.a.build(tt), rc.w)
	case opSExt:
		return tt.SExt(rc.a.build(tt), rc.w)
	}
	return tt.Bin(rc.op, rc.a.build(tt), rc.b.build(tt))
}

// ref evaluates the recipe directly (no term construction involved).
func (rc *recipe) ref(m Model) uint64 {
	switch rc.op {
	case opConst:
		return rc.k
	case opVar:
		return m[rc.name] & mask(rc.w)
	case opNot:
		return 1 - rc.a.ref(m)
	case opAnd:
		return rc.a.ref(m) & rc.b.ref(m)
	case opOr:
		return rc.a.ref(m) | rc.b.ref(m)
	case opEq:
		return b2u(rc.a.ref(m) == rc.b.ref(m))
	case opIte:
		if rc.c.ref(m) != 0 {
			return rc.a.ref(m)
		}
		return rc.b.ref(m)
	case opBvNot:
		return ^rc.a.ref(m) & mask(rc.w)
	case opBvNeg:
		return -rc.a.ref(m) & mask(rc.w)
	case opExtract:
		return (rc.a.ref(m) >> rc.lo) & mask(rc.hi-rc.lo+1)
	case opConcat:
		return rc.a.ref(m)<<rc.b.w | rc.b.ref(m)
	case opZExt:
		return rc.a.ref(m)
	case opSExt:
		return uint64(sext(rc.a.ref(m), rc.a.w)) & mask(rc.w)
	}
	return evalBin(rc.op, rc.a.w, rc.a.ref(m), rc.b.ref(m))
}

func (rc *recipe) vars(out map[string]uint8) {
	if rc == nil {
		return
	}
	if rc.op == opVar {
		out[rc.name] = rc.w
	}
	rc.a.vars(out)
	rc.b.vars(out)
	rc.c.vars(out)
}

func TestSimplifierAgainstDirectEvaluation(t *testing.T) {
	r := rand.New(rand.NewSource(1))
	tt := newTermTable()
	for n := 0; n < 20000; n++ {
		tt.reset()
		w := []uint8{8, 16, 32, 64}[r.Intn(4)]
		var rc *recipe
		if n%3 == 0 {
			rc = genBool(r, 3)
		} else {
			rc = genRecipe(r, w, 4)
		}
		term := rc.build(tt)
		vs := map[string]uint8{}
		rc.vars(vs)
		for trial := 0; trial < 4; trial++ {
			m := Model{}
			for name, vw := range vs {
				switch r.Intn(4) {
				case 0:
					m[name] = 0
				case 1:
					m[name] = mask(vw)
				default:
					m[name] = r.Uint64() & mask(vw)
				}
			}
			got := newEvaluator(m).eval(term)
			want := rc.ref(m)
			if got != want {
				t.Fatalf("case %d: simplified term %s evaluates to %#x, recipe to %#x under %v", n, term, got, want, m)
			}
		}
	}
}

func TestEvaluatorAgainstSolver(t *testing.T) {
	for _, kind := range []string{"z3", "cvc5"} {
		sol, err := newSolver(kind, 20000)
		if err != nil {
			t.Skip("solver not available: ", err)
		}
		r := rand.New(rand.NewSource(2))
		tt := newTermTable()
		for n := 0; n < 300; n++ {
			tt.reset()
			sol.newScope()
			w := []uint8{8, 16, 32, 64}[r.Intn(4)]
			rc := genRecipe(r, w, 4)
			term := rc.build(tt)
			vs := map[string]uint8{}
			rc.vars(vs)
			m := Model{}
			cond := tt.tTrue
			for name, vw := range vs {
				m[name] = r.Uint64() & mask(vw)
				cond = tt.And(cond, tt.Eq(tt.Var(vw, name), tt.Const(vw, m[name])))
			}
			v := newEvaluator(m).eval(term)
			// vars bound to m: the term must equal what the evaluator computed
			q := tt.And(cond, tt.Not(tt.Eq(term, tt.Const(term.w, v))))
			res, _, err := sol.check(q, false)
			if err != nil {
				t.Fatal(err)
			}
			if res != resUnsat {
				t.Fatalf("%s: evaluator says %s = %#x under %v, solver disagrees (%v)", kind, term, v, m, res)
			}
		}
		sol.close()
	}
}

// The symbolic scalar operations must agree with Go's own arithmetic
// (concBinop / concConv run natively) on every kind, including the shift-count
// rule, signed division/remainder, comparisons and conversions.
func TestSymbolicOpsAgainstGo(t *testing.T) {
	r := rand.New(rand.NewSource(3))
	i := &interpreter{tt: newTermTable(), P: &program{}}
	i.path = &pathState{}
	kinds := []types.BasicKind{types.Int, types.Int8, types.Int16, types.Int32, types.Int64, types.Uint, types.Uint8, types.Uint16, types.Uint32, types.Uint64}
	ops := []token.Token{token.ADD, token.SUB, token.MUL, token.QUO, token.REM, token.AND, token.OR, token.XOR, token.AND_NOT, token.SHL, token.SHR, token.EQL, token.NEQ, token.LSS, token.LEQ, token.GTR, token.GEQ}
	pick := func(k types.BasicKind) uint64 {
		w := kindWidth(k)
		switch r.Intn(6) {
		case 0:
			return 0
		case 1:
			return mask(w)
		case 2:
			return uint64(1) << (w - 1)
		case 3:
			return uint64(r.Intn(70))
		}
		return r.Uint64() & mask(w)
	}
	for n := 0; n < 60000; n++ {
		i.tt.reset()
		k := kinds[r.Intn(len(kinds))]
		op := ops[r.Intn(len(ops))]
		a, b := pick(k), pick(k)
		ky := k
		if op == token.SHL || op == token.SHR {
			ky = kinds[5+r.Intn(5)] // unsigned count of any width
			b = pick(ky)
			if r.Intn(2) == 0 {
				b = uint64(r.Intn(70))
			}
		}
		if (op == token.QUO || op == token.REM) && b&mask(kindWidth(k)) == 0 {
			continue
		}
		ca, cb := fromBits(k, a), fromBits(ky, b)
		want := concBinop(op, types.Typ[k], ca, cb)
		sx := sym{i.tt.Var(kindWidth(k), "x"), k}
		sy := sym{i.tt.Var(kindWidth(ky), "y"), ky}
		var yv value = sy
		if op == token.QUO || op == token.REM {
			yv = cb // a symbolic divisor forks a divide-by-zero path: not under test here
		}
		got := i.binop(op, types.Typ[k], sx, yv)
		gt, gk := i.term(got)
		m := Model{"x": a & mask(kindWidth(k)), "y": b & mask(kindWidth(ky))}
		gv := newEvaluator(m).eval(gt)
		_, wv, _ := concKind(want)
		if gk == types.Bool {
			if (gv != 0) != want.(bool) {
				t.Fatalf("%v %s %v (%v): symbolic %v, Go %v", ca, op, cb, k, gv != 0, want)
			}
			continue
		}
		if gv != wv&mask(kindWidth(gk)) {
			t.Fatalf("%v %s %v (%v): symbolic %#x, Go %#x", ca, op, cb, k, gv, wv&mask(kindWidth(gk)))
		}
		// conversions k -> k2
		k2 := kinds[r.Intn(len(kinds))]
		cw := concConv(types.Typ[k2], types.Typ[k], ca)
		cs := i.conv(types.Typ[k2], types.Typ[k], sx)
		ct, _ := i.term(cs)
		cv := newEvaluator(m).eval(ct)
		_, cwv, _ := concKind(cw)
		if cv != cwv&mask(kindWidth(k2)) {
			t.Fatalf("conv %v(%v) -> %v: symbolic %#x, Go %#x", k, ca, k2, cv, cwv&mask(kindWidth(k2)))
		}
	}
}
