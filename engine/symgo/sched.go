package main

// Controlled scheduler for interpreted goroutines (baton passing), channels
// and sync primitives.  Each interpreted goroutine is a native goroutine, but
// only the baton holder runs; scheduling choices are decisions of the path
// enumeration (context-bounded: pre-emptive switches are counted against a
// budget, switches at blocking points are free).

import (
	"fmt"
	"go/token"
	"sync"
)

type gor struct {
	id       int
	wake     chan struct{}
	done     bool
	waitCond func() bool // nil = runnable
	waitWhat string
}

type scheduler struct {
	i           *interpreter
	gs          []*gor
	cur         *gor
	dead        bool
	wg          sync.WaitGroup
	pending     interface{} // abort/panic raised in a non-main goroutine
	preemptions int
	maxPreempt  int
	switches    int
}

func newScheduler(i *interpreter) *scheduler {
	s := &scheduler{i: i}
	s.maxPreempt = i.P.params["preemptions"]
	return s
}

func (s *scheduler) runMain(f func(fr *frame)) {
	g := &gor{id: 0, wake: make(chan struct{}, 1)}
	s.gs = []*gor{g}
	s.cur = g
	root := &frame{i: s.i, g: g}
	f(root)
}

// teardown kills all goroutines still parked.
func (s *scheduler) teardown() {
	s.dead = true
	for _, g := range s.gs {
		if g.id != 0 && !g.done {
			select {
			case g.wake <- struct{}{}:
			default:
			}
		}
	}
	s.wg.Wait()
}

func (s *scheduler) live() int {
	n := 0
	for _, g := range s.gs {
		if g.id != 0 && !g.done {
			n++
		}
	}
	return n
}

func (s *scheduler) runnable() []*gor {
	var r []*gor
	// current goroutine first so that choice 0 = "keep running"
	if g := s.cur; !g.done && (g.waitCond == nil || g.waitCond()) {
		r = append(r, g)
	}
	for _, g := range s.gs {
		if g == s.cur || g.done {
			continue
		}
		if g.waitCond == nil || g.waitCond() {
			r = append(r, g)
		}
	}
	return r
}

// park waits until this goroutine is handed the baton again.
func (s *scheduler) park(g *gor) {
	<-g.wake
	if s.dead {
		panic(engineAbort{abKilled, "path ended"})
	}
	s.cur = g
	if g.id == 0 && s.pending != nil {
		p := s.pending
		s.pending = nil
		panic(p)
	}
}

func (s *scheduler) switchTo(from, to *gor) {
	if from == to {
		return
	}
	s.switches++
	to.wake <- struct{}{}
	s.park(from)
}

// yield is a pre-emption point.
func (s *scheduler) yield(fr *frame, what string) {
	if len(s.gs) == 1 {
		return
	}
	if s.preemptions >= s.maxPreempt {
		return
	}
	r := s.runnable()
	if len(r) <= 1 {
		return
	}
	k := s.i.choose(0, int64(len(r)-1))
	if k != 0 {
		s.preemptions++
		if s.i.P.trace {
			fmt.Printf("  preempt g%d -> g%d at %s\n", s.cur.id, r[k].id, what)
		}
		s.switchTo(s.cur, r[k])
	}
}

// block waits until cond holds; switching away is free.
func (s *scheduler) block(fr *frame, cond func() bool, what string) {
	g := s.cur
	for !cond() {
		g.waitCond, g.waitWhat = cond, what
		r := s.runnable()
		if len(r) == 0 {
			desc := ""
			for _, x := range s.gs {
				if !x.done {
					desc += fmt.Sprintf(" g%d:%s", x.id, x.waitWhat)
				}
			}
			g.waitCond = nil
			s.raise(engineAbort{abDeadlock, "all goroutines blocked:" + desc})
		}
		var to *gor
		if len(r) == 1 {
			to = r[0]
		} else {
			to = r[s.i.choose(0, int64(len(r)-1))]
		}
		s.switchTo(g, to)
	}
	g.waitCond, g.waitWhat = nil, ""
}

// raise ends the path from whichever goroutine is running.
func (s *scheduler) raise(p interface{}) {
	panic(p)
}

func (i *interpreter) spawn(fr *frame, pos token.Pos, fn value, args []value) {
	s := i.sched
	i.path.goroutines++
	g := &gor{id: len(s.gs), wake: make(chan struct{}, 1)}
	s.gs = append(s.gs, g)
	s.wg.Add(1)
	go func() {
		defer s.wg.Done()
		defer func() {
			r := recover()
			g.done = true
			if ab, ok := r.(engineAbort); ok && ab.kind == abKilled {
				return
			}
			if s.dead {
				return
			}
			if r != nil {
				// uncaught panic or engine abort in a spawned goroutine:
				// deliver it to the main goroutine, which ends the path.
				s.pending = r
				main := s.gs[0]
				main.waitCond = nil
				main.wake <- struct{}{}
				return
			}
			// normal exit: hand the baton to someone runnable
			rn := s.runnable()
			if len(rn) == 0 {
				desc := ""
				for _, x := range s.gs {
					if !x.done {
						desc += fmt.Sprintf(" g%d:%s", x.id, x.waitWhat)
					}
				}
				s.pending = engineAbort{abDeadlock, "all goroutines blocked:" + desc}
				main := s.gs[0]
				main.waitCond = nil
				main.wake <- struct{}{}
				return
			}
			to := rn[0]
			if len(rn) > 1 {
				func() {
					defer func() {
						if r2 := recover(); r2 != nil {
							s.pending = r2
							to = s.gs[0]
							to.waitCond = nil
						}
					}()
					to = rn[i.choose(0, int64(len(rn)-1))]
				}()
			}
			to.wake <- struct{}{}
		}()
		// wait for the first baton
		<-g.wake
		if s.dead {
			panic(engineAbort{abKilled, "path ended"})
		}
		s.cur = g
		root := &frame{i: i, g: g}
		call(i, root, pos, fn, args)
	}()
	// spawning is a pre-emption point
	s.yield(fr, "go")
}

// ------------------------------------------------------------------ channels

type sendEntry struct {
	v     value
	taken bool
}

type vchan struct {
	cap    int
	buf    []value
	closed bool
	sendq  []*sendEntry
}

func (i *interpreter) makeChan(n int) *vchan { return &vchan{cap: n} }

func (i *interpreter) chanSend(fr *frame, c value, v value) {
	ch := c.(*vchan)
	s := i.sched
	if ch == nil {
		s.block(fr, func() bool { return false }, "send on nil chan")
	}
	s.yield(fr, "chan send")
	if ch.closed {
		panic(targetPanic{iface{i.P.runtimeErrorString, "send on closed channel"}})
	}
	if ch.cap > 0 {
		s.block(fr, func() bool { return ch.closed || len(ch.buf) < ch.cap }, "chan send (full)")
		if ch.closed {
			panic(targetPanic{iface{i.P.runtimeErrorString, "send on closed channel"}})
		}
		ch.buf = append(ch.buf, v)
		return
	}
	e := &sendEntry{v: v}
	ch.sendq = append(ch.sendq, e)
	s.block(fr, func() bool { return e.taken || ch.closed }, "chan send")
	if !e.taken {
		// closed while we were waiting
		for k, x := range ch.sendq {
			if x == e {
				ch.sendq = append(ch.sendq[:k], ch.sendq[k+1:]...)
				break
			}
		}
		panic(targetPanic{iface{i.P.runtimeErrorString, "send on closed channel"}})
	}
}

func (i *interpreter) chanRecv(fr *frame, c value) (value, bool) {
	ch := c.(*vchan)
	s := i.sched
	if ch == nil {
		s.block(fr, func() bool { return false }, "recv on nil chan")
	}
	s.yield(fr, "chan recv")
	s.block(fr, func() bool { return len(ch.buf) > 0 || len(ch.sendq) > 0 || ch.closed }, "chan recv")
	if len(ch.buf) > 0 {
		v := ch.buf[0]
		ch.buf = ch.buf[1:]
		return v, true
	}
	if len(ch.sendq) > 0 {
		e := ch.sendq[0]
		ch.sendq = ch.sendq[1:]
		e.taken = true
		return e.v, true
	}
	return nil, false
}

func (i *interpreter) chanClose(fr *frame, c value) {
	ch := c.(*vchan)
	if ch == nil {
		panic(targetPanic{iface{i.P.runtimeErrorString, "close of nil channel"}})
	}
	i.sched.yield(fr, "chan close")
	if ch.closed {
		panic(targetPanic{iface{i.P.runtimeErrorString, "close of closed channel"}})
	}
	ch.closed = true
}

// ------------------------------------------------------------------ mutexes

type mutexState struct {
	locked  bool // writer
	readers int
}

func (i *interpreter) mutex(p value) *mutexState {
	addr := p.(*value)
	m := i.mutexes[addr]
	if m == nil {
		m = &mutexState{}
		i.mutexes[addr] = m
	}
	return m
}
