#!/bin/bash
# usage: tools/seeddetect.sh <dir with patch.diff> <property ids...>
# applies the change to /repo, runs the quick (or $TIER) check of each property, undoes it
export GOFLAGS=-mod=mod GOPROXY=off GOSUMDB=off GOTOOLCHAIN=local
d=$(cd "$1" && pwd); shift
if [ -n "$(git -C /repo status --porcelain)" ]; then echo "$d /repo not clean, refusing"; exit 5; fi
git -C /repo apply "$d/patch.diff" || { echo "$d cannot apply"; exit 3; }
for p in "$@"; do
  s=$(date +%s)
  out=$(cd /verif && VERIF_NO_VALIDATE=1 ./bin/symgo check --property $p --tier ${TIER:-quick} 2>&1); rc=$?
  e=$(date +%s)
  echo "$d CHECK $p rc=$rc $((e-s))s"
  echo "$out" | grep -E "^(VIOLATION|INCONCLUSIVE|   harness=)" | cut -c1-220 | head -6
done
git -C /repo checkout -- .
