#!/usr/bin/env python3
"""Runs every run of a tier individually with a capped budget and reports
paths / wall time / timed out, to size the registered bounds.
usage: tools/calibrate.py thorough [budget_s] [prop ...]"""
import json, subprocess, sys, time, os
tier = sys.argv[1]
budget = int(sys.argv[2]) if len(sys.argv) > 2 else 600
only = sys.argv[3:]
b = json.load(open(os.path.join(os.environ.get("VERIF_DIR", "/verif"), "bounds.json")))
env = dict(os.environ, GOFLAGS="-mod=mod", GOPROXY="off", GOSUMDB="off", GOTOOLCHAIN="local")
for pid in sorted(b):
    if only and pid not in only:
        continue
    for i, r in enumerate(b[pid][tier]["runs"]):
        if r.get("expect") or "solver" in r:
            continue
        sel = os.environ.get("CALIB_ONLY")
        if sel and f"{pid}:{i}" not in sel.split(","):
            continue
        args = ["/verif/bin/symgo", "run", "--harness", r["harness"], "--budget", str(budget)]
        for k, v in r["params"].items():
            args += ["-p", f"{k}={v}"]
        t0 = time.time()
        out = subprocess.run(args, capture_output=True, text=True, env=env).stdout
        line = out.splitlines()[0] if out else "?"
        import re
        m = re.search(r"paths=(\d+) ok=(\d+).*violations=(\d+).*wall=([\d.]+)s timedout=(\w+)", line)
        print(pid, i, r["harness"], json.dumps({k: v for k, v in r["params"].items() if k in ("nmin","nmax","klen","vlen","cache","k","opmask","flushes","prior","inflight","junkmax","initial","mutations","preemptions","maxfail","faultops","ncolls","trailing","variant","ops","store","cmps","init","allsubsets","bigval","lean","maporder","dirty")}), m.groups() if m else line[:150], flush=True)
