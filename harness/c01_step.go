package gkvlite

// C01 STEP: one API call with symbolic arguments from an arbitrary valid
// pre-state; result and post-state compared with the sorted-map model.

const (
	vOpSetItem = iota
	vOpSet
	vOpDelete
	vOpGetItem
	vOpGet
	vOpExist
	vOpMinMax
	vOpTotals
	vOpEvict
	vOpInvalid
	vOpFlush
	vOpReopen
	vNumOps
)

func vCfgFromParams() vCfg {
	cfg := vCfg{
		n:       vChoose("n", vParam("nmin"), vParam("nmax")),
		klen:    vParam("klen"),
		vlen:    vParam("vlen"),
		vlenMin: vParam("vlenmin"),
		variant: vParam("variant"),
	}
	switch vParam("store") {
	case 0:
		cfg.file = false
	case 1:
		cfg.file = true
		cfg.cache = vParam("cache")
	default:
		if vChoose("file", 0, 1) == 1 {
			cfg.file = true
			cfg.cache = vParam("cache")
		}
	}
	return cfg
}

func vKeyArg(name string, klen int) []byte {
	kl := 1
	if klen > 1 {
		kl = vChoose(name+"-len", 1, klen)
	}
	return vBytes(name, kl)
}

// vStepOp performs one operation on pre.c and checks its result against the
// model; it updates the model.  Returns false if the op does not apply.
func vStepOp(pre *vPre, op int) bool {
	c, m := pre.c, pre.m
	cfg := pre.cfg
	switch op {
	case vOpSetItem:
		vTrace("SetItem")
		key := vKeyArg("key", cfg.klen)
		val := vBytes("val", vChoose("val-len", 0, cfg.vlen))
		prio := vInt32("prio")
		if cfg.variant >= 1 {
			// heap variants: do not lower an existing key's priority
			if i := m.find(key); i >= 0 {
				vAssume(prio >= m.ents[i].prio)
			}
			if cfg.variant == 2 {
				for _, e := range m.ents {
					if m.cmp(e.key, key) != 0 {
						vAssume(e.prio != prio)
					}
				}
			}
		}
		err := c.SetItem(&Item{Key: key, Val: val, Priority: prio})
		if prio < 0 {
			vAssert("setitem-negprio-rejected", err != nil)
			vCover("setitem-negative-priority")
		} else {
			vAssert("setitem-ok", err == nil)
			if i := m.find(key); i >= 0 {
				if prio < m.ents[i].prio {
					vCover("overwrite-lower-priority")
				} else if prio == m.ents[i].prio {
					vCover("overwrite-tied-priority")
				} else {
					vCover("overwrite-higher-priority")
				}
			} else {
				vCover("insert-new")
			}
			m.set(key, val, prio)
		}
	case vOpSet:
		vTrace("Set")
		key := vKeyArg("key", cfg.klen)
		val := vBytes("val", vChoose("val-len", 0, cfg.vlen))
		err := c.Set(key, val)
		vAssert("set-ok", err == nil)
		got, err := c.GetItem(key, true)
		vAssert("set-get", vAnd(err == nil, got != nil))
		if got == nil {
			return true
		}
		vAssert("set-prio-nonneg", got.Priority >= 0)
		m.set(key, val, got.Priority)
	case vOpDelete:
		vTrace("Delete")
		key := vKeyArg("key", cfg.klen)
		was, err := c.Delete(key)
		want := m.del(key)
		vAssert("delete-noerr", err == nil)
		vAssert("delete-result", was == want)
		if want {
			vCover("delete-hit")
		} else {
			vCover("delete-miss")
		}
	case vOpGetItem:
		vTrace("GetItem")
		key := vKeyArg("key", cfg.klen)
		wv := vChoose("withValue", 0, 1) == 1
		it, err := c.GetItem(key, wv)
		vAssert("getitem-noerr", err == nil)
		i := m.find(key)
		if i < 0 {
			vAssert("getitem-absent-nil", it == nil)
			vCover("get-miss")
		} else {
			vAssert("getitem-present", it != nil)
			if it != nil {
				vAssert("getitem-key", vBytesEq(it.Key, m.ents[i].key))
				vAssert("getitem-prio", it.Priority == m.ents[i].prio)
				if wv {
					vAssert("getitem-val", vAnd(it.Val != nil, vBytesEq(it.Val, m.ents[i].val)))
				}
			}
			vCover("get-hit")
		}
	case vOpGet:
		vTrace("Get")
		key := vKeyArg("key", cfg.klen)
		v, err := c.Get(key)
		vAssert("get-noerr", err == nil)
		i := m.find(key)
		if i < 0 {
			vAssert("get-absent-nil", v == nil)
		} else {
			vAssert("get-val", vAnd(v != nil, vBytesEq(v, m.ents[i].val)))
		}
	case vOpExist:
		vTrace("Exist")
		key := vKeyArg("key", cfg.klen)
		ex := c.Exist(key)
		vAssert("exist", ex == (m.find(key) >= 0))
	case vOpMinMax:
		vTrace("MinMax")
		wv := vChoose("withValue", 0, 1) == 1
		var it *Item
		var err error
		idx := 0
		if vChoose("max", 0, 1) == 1 {
			it, err = c.MaxItem(wv)
			idx = len(m.ents) - 1
		} else {
			it, err = c.MinItem(wv)
		}
		vAssert("minmax-noerr", err == nil)
		if len(m.ents) == 0 {
			vAssert("minmax-empty-nil", it == nil)
		} else {
			vAssert("minmax-nonnil", it != nil)
			if it != nil {
				vAssert("minmax-key", vBytesEq(it.Key, m.ents[idx].key))
				vAssert("minmax-prio", it.Priority == m.ents[idx].prio)
				if wv {
					vAssert("minmax-val", vAnd(it.Val != nil, vBytesEq(it.Val, m.ents[idx].val)))
				}
			}
		}
	case vOpTotals:
		vTrace("GetTotals")
		n, b, err := c.GetTotals()
		mn, mb := m.totals()
		vAssert("totals", vAnd(err == nil, vAnd(n == mn, b == mb)))
	case vOpEvict:
		vTrace("EvictSomeItems")
		c.EvictSomeItems()
	case vOpInvalid:
		vTrace("SetItem-invalid")
		var it *Item
		switch vChoose("invalid-kind", 0, 4) {
		case 0:
			it = &Item{Key: nil, Val: []byte{1}, Priority: vInt32("prio")}
		case 1:
			it = &Item{Key: []byte{}, Val: []byte{1}, Priority: vInt32("prio")}
		case 2:
			it = &Item{Key: vKeyArg("key", cfg.klen), Val: nil, Priority: vInt32("prio")}
		case 3:
			it = &Item{Key: make([]byte, 65536), Val: []byte{}, Priority: 0}
		case 4:
			// the boundary that must be accepted: 65535-byte key, empty value
			big := make([]byte, 65535)
			big[0] = vUint8("big0")
			err := c.SetItem(&Item{Key: big, Val: []byte{}, Priority: 7})
			vAssert("setitem-65535-accepted", err == nil)
			m.set(big, []byte{}, 7)
			vCover("key-65535")
			if pre.f != nil && pre.cfg.n == 0 && vChoose("big-key-roundtrip", 0, 1) == 1 {
				// the boundary key must also survive the file: flush, re-open, look it up
				vTrace("Flush+Reopen(65535-byte key)")
				vAssert("bigkey-flush", pre.s.Flush() == nil)
				s2, err := NewStore(pre.f)
				vAssert("bigkey-reopen", vAnd(err == nil, s2 != nil))
				if s2 != nil && s2.GetCollection(pre.cfg.name) != nil {
					pre.s, pre.c = s2, s2.GetCollection(pre.cfg.name)
					it, err := pre.c.GetItem(big, true)
					vAssert("bigkey-get", vAnd(err == nil, it != nil))
				}
			}
			return true
		}
		err := c.SetItem(it)
		vAssert("setitem-invalid-rejected", err != nil)
		vCover("invalid-rejected")
	case vOpFlush:
		if pre.f == nil {
			err := pre.s.Flush()
			vAssert("flush-memonly-rejected", err != nil)
			return true
		}
		vTrace("Flush")
		err := pre.s.Flush()
		vAssert("flush-ok", err == nil)
	case vOpReopen:
		if pre.f == nil {
			return false
		}
		vTrace("Flush+Reopen")
		err := pre.s.Flush()
		vAssert("flush-ok", err == nil)
		s2, err := NewStore(pre.f)
		vAssert("reopen-ok", vAnd(err == nil, s2 != nil))
		if s2 == nil {
			return true
		}
		c2 := s2.GetCollection(pre.cfg.name)
		vAssert("reopen-coll", c2 != nil)
		if c2 == nil {
			return true
		}
		pre.s, pre.c = s2, c2
		vCover("reopened")
	default:
		return false
	}
	return true
}

func vH_C01_step() {
	pre := vBuildPre(vCfgFromParams())
	op := vChoose("op", 0, vNumOps-1)
	if !vStepOp(pre, op) {
		return
	}
	vCheckColl("post", pre.c, pre.m)
	vCover("done")
}
