#!/usr/bin/env python3
"""Prints the as-registered runs per property and tier as a markdown table (for DESIGN.md Appendix C)."""
import json
b = json.load(open('/verif/bounds.json'))
KEYS = ["nmin","nmax","klen","vlen","store","cache","variant","ops","cmps","k","snaps","init","opmask","flushes","bigval","lean","prior","inflight","junkmax","initial","mutations","flusher","preemptions","nkeys","evict","dirty","maporder","maxfail","faultops","ncolls","trailing","secondgen","preop","allsubsets","itermut","onlyop","evictin","viasnap","emptyname","readback","final_reopen","tailjunk","copyto","decode"]
RELEVANT = {
 "C01_step":["nmin","nmax","klen","vlen","store","cache"], "C13_step":["nmin","nmax","klen","vlen","store","cache","variant","ops","decode"],
 "C06_step":["nmin","nmax","klen","store","cache","cmps","evictin","viasnap"], "C19_open":["nmax","klen","vlen"], "C19_keyonly":["nmin","nmax","preop","onlyop"], "C19_race":["nmin","nmax","preemptions"],
 "C09_readonly":["nmin","nmax","cache","tailjunk"], "C09_append":["nmax","cache","ops"], "C14_fmt":["nmin","nmax","klen","vlen","cache","copyto"],
 "C02_step":["nmin","nmax","klen","cache","ncolls","trailing","preop","secondgen"], "C11_copyto":["nmin","nmax","cache","ncolls"], "C07_fault":["nmin","nmax","klen","faultops","maxfail"],
 "C03_torn":["prior","inflight","vlen"], "C03_junk":["prior","vlen","junkmax"], "C03_accept":["junkmax"],
 "C04_hist":["store","k","snaps","init","opmask"], "C10_hist":["store","k","snaps","init","opmask"], "C12_hist":["store","k","opmask","final_reopen","emptyname"], "C15_hist":["store","k","snaps","init","opmask"], "C15_get":[],
 "C16_enum":["nmin","nmax","cmps"], "C16_boundary":["nmin","nmax"], "C08_revert":["store","flushes","bigval","lean","cmps"], "C17_rel":["k","vlen","allsubsets"],
 "C18_iter":["nmin","nmax","store","cache","preemptions","itermut"], "C18_reentrant":["nmin","nmax","cache"], "C05_conc":["initial","mutations","flusher","preemptions","nkeys","evict","dirty","maporder"],
 "C14_kernel_item":[], "C14_kernel_ploc":[], "C14_kernel_node":[],
}
print("| property | tier | harness | bounds (harness parameters) |")
print("|---|---|---|---|")
for pid in sorted(b):
    for tier in ("quick","thorough"):
        for r in b[pid][tier]["runs"]:
            if r.get("expect") or "solver" in r:
                continue
            ks = RELEVANT.get(r["harness"], KEYS)
            desc = ", ".join(f"{k}={r['params'][k]}" for k in ks if k in r["params"])
            print(f"| {pid} | {tier} | `{r['harness']}` | {desc or 'full machine-word width'} |")
print()
print("Every property additionally runs, in both tiers, one vacuity twin (smallest quick bounds, final assert(false) must be reported) and, in the thorough tier, the smallest quick run under z3 4.8.12, z3 5.1 and cvc5 (the three explorations must agree).")
