package gkvlite

// Native implementations of the harness intrinsics, used only when a
// counterexample is replayed as an ordinary Go test (never loaded by the
// symbolic executor).

import (
	"bytes"
	"encoding/json"
	"fmt"
	"os"
	"runtime"
	"time"

	"github.com/cbehopkins/gkvlite/vrand"
)

type vReplayRec struct {
	Name string `json:"name"`
	Kind string `json:"kind"`
	Val  uint64 `json:"val"`
}

type vReplayFile struct {
	Harness string         `json:"harness"`
	Kind    string         `json:"kind"`
	Label   string         `json:"label"`
	Params  map[string]int `json:"params"`
	Nondets []vReplayRec   `json:"nondets"`
	Chooses []int64        `json:"chooses"`
}

var vRF vReplayFile
var vNextNondet, vNextChoose int

func vLoadReplay(path string) error {
	b, err := os.ReadFile(path)
	if err != nil {
		return err
	}
	vNextNondet, vNextChoose = 0, 0
	vrand.Source = func(name string) (int64, bool) {
		if vNextNondet >= len(vRF.Nondets) {
			return 0, false
		}
		return int64(vNext(name)), true
	}
	return json.Unmarshal(b, &vRF)
}

type vViolation struct{ msg string }

func vNext(name string) uint64 {
	if vNextNondet >= len(vRF.Nondets) {
		// beyond what the symbolic path created: unconstrained, use 0
		return 0
	}
	r := vRF.Nondets[vNextNondet]
	vNextNondet++
	if r.Name != name {
		fmt.Printf("VREPLAY-DIVERGED nondet %d: recorded %q, native asks %q\n", vNextNondet-1, r.Name, name)
	}
	return r.Val
}

func vInt32(name string) int32   { return int32(vNext(name)) }
func vInt64(name string) int64   { return int64(vNext(name)) }
func vInt(name string) int       { return int(vNext(name)) }
func vUint8(name string) uint8   { return uint8(vNext(name)) }
func vUint16(name string) uint16 { return uint16(vNext(name)) }
func vUint32(name string) uint32 { return uint32(vNext(name)) }
func vUint64(name string) uint64 { return vNext(name) }
func vBool(name string) bool     { return vNext(name) != 0 }
func vBytes(name string, n int) []byte {
	b := make([]byte, n)
	for k := range b {
		b[k] = uint8(vNext(fmt.Sprintf("%s[%d]", name, k)))
	}
	return b
}
func vChoose(name string, lo, hi int) int {
	if vNextChoose >= len(vRF.Chooses) {
		return lo
	}
	v := int(vRF.Chooses[vNextChoose])
	vNextChoose++
	return v
}
func vAssume(c bool) {
	if !c {
		fmt.Println("VREPLAY-ASSUME-FALSE (input outside the harness precondition)")
		panic(vViolation{"assume"})
	}
}
func vAssert(label string, c bool) {
	if !c {
		fmt.Printf("VREPLAY-VIOLATION assert %s\n", label)
		panic(vViolation{label})
	}
}
func vCover(label string)       {}
func vTrace(s string)           { fmt.Println("  trace:", s) }
func vTraceInt(s string, n int) { fmt.Printf("  trace: %s=%d\n", s, n) }
func vParam(name string) int {
	v, ok := vRF.Params[name]
	if !ok {
		panic("replay: missing param " + name)
	}
	return v
}
func vSymbolic() bool     { return false }
func vAnd(a, b bool) bool { return a && b }
func vOr(a, b bool) bool  { return a || b }
func vNot(a bool) bool    { return !a }
func vIteInt(c bool, a, b int) int {
	if c {
		return a
	}
	return b
}
func vIteInt32(c bool, a, b int32) int32 {
	if c {
		return a
	}
	return b
}
func vIteInt64(c bool, a, b int64) int64 {
	if c {
		return a
	}
	return b
}
func vIteUint8(c bool, a, b uint8) uint8 {
	if c {
		return a
	}
	return b
}
func vIteUint64(c bool, a, b uint64) uint64 {
	if c {
		return a
	}
	return b
}
func vIteBool(c bool, a, b bool) bool {
	if c {
		return a
	}
	return b
}
func vBytesEq(a, b []byte) bool { return bytes.Equal(a, b) }
func vBytesCmp(a, b []byte) int { return bytes.Compare(a, b) }
func vConcInt(x int) int        { return x }
func vYield(what string)        { runtime.Gosched() }
func vLiveGoroutines() int {
	time.Sleep(20 * time.Millisecond)
	return runtime.NumGoroutine() - vBaseGoroutines
}
func vBlockUntil(p *bool) {
	for !*p {
		time.Sleep(time.Millisecond)
	}
}
func vPreemptions() int        { return 0 }
func vYieldAll()               { time.Sleep(200 * time.Microsecond) }
func vStop(why string)         { panic(vViolation{"stop:" + why}) }
func vInconclusive(why string) { panic(vViolation{"inconclusive:" + why}) }

var vBaseGoroutines int
